"""corr_fd.py -- correspondence check for property C16: the model of the numerical-differentiation loop of
BaseEdge.calc_jacobians (coq/lib/FDModel.v, run over PrimFloat through coq/lib/FDModelF.v with the copy /
`+=` / COMPACT_DIMENSIONALITY definitions regenerated from graphslam/pose/*.py) against the REAL
BaseEdge.calc_jacobians of custom edges that define only calc_error.

Both sides evaluate the SAME error expression (an expression tree of lib/Expr.v: the Python calc_error is an
interpreter of that tree with IEEE double operations, the Coq side is ExprF.evalF), so what is validated is the
differentiation LOOP: which pose is perturbed, by what, in which order, from which object the perturbation
starts, restoration, column placement, and that calc_jacobians leaves every pose value unchanged.

Also the small expression library shared with tools/oracle_fd.py (float / dual-number / majorant interpreters)."""
import json
import math
import os
import random
import re
import struct
import sys

import numpy as np

import vlib
import corr_poses

sys.path.insert(0, vlib.REPO)
from graphslam.edge.base_edge import BaseEdge  # noqa: E402
from graphslam.vertex import Vertex  # noqa: E402

KINDS = ['R2', 'R3', 'SE2', 'SE3']
LEN = corr_poses.LEN
PDIM = {'R2': 2, 'R3': 3, 'SE2': 2, 'SE3': 3}
CDIM = {'R2': 2, 'R3': 3, 'SE2': 3, 'SE3': 6}
KCODE = {'R2': 2, 'R3': 3, 'SE2': 12, 'SE3': 13}
KCOQ = {'R2': 'KR2', 'R3': 'KR3', 'SE2': 'KSE2', 'SE3': 'KSE3'}
BIN = ('Add', 'Sub', 'Mul', 'Div', 'Mod')
UN = ('Neg', 'Sq', 'Sin', 'Cos', 'Sqrt')
PI_F = math.pi


# ------------------------------------------------------------------------------- expressions
def V(i):
    return ('Var', i)


def C(z):
    return ('Cst', int(z))


def add(a, b):
    return ('Add', a, b)


def sub(a, b):
    return ('Sub', a, b)


def mul(a, b):
    return ('Mul', a, b)


def sq(a):
    return ('Sq', a)


def sqrt(a):
    return ('Sqrt', a)


def sumx(xs):
    r = xs[0]
    for x in xs[1:]:
        r = add(r, x)
    return r


def to_coq(e):
    t = e[0]
    if t == 'Var':
        return '(Var %d)' % e[1]
    if t == 'Cst':
        return '(Cst (%d))' % e[1]
    if t == 'CstQ':
        return '(CstQ (%d) (%d))' % (e[1], e[2])
    if t == 'Pi':
        return 'Pi'
    return '(%s %s)' % (t, ' '.join(to_coq(x) for x in e[1:]))


def subst(e, mapping, memo=None):
    """replace Var i by mapping[i] (structure sharing kept)"""
    if memo is None:
        memo = {}
    k = id(e)
    if k in memo:
        return memo[k]
    t = e[0]
    if t == 'Var':
        r = mapping[e[1]]
    elif t in ('Cst', 'CstQ', 'Pi'):
        r = e
    else:
        r = (t,) + tuple(subst(x, mapping, memo) for x in e[1:])
    memo[k] = r
    return r


def size(e, memo=None):
    if e[0] in ('Var', 'Cst', 'CstQ', 'Pi'):
        return 1
    return 1 + sum(size(x) for x in e[1:])


def uses_trig(e):
    if e[0] in ('Sin', 'Cos'):
        return True
    if e[0] in ('Var', 'Cst', 'CstQ', 'Pi'):
        return False
    return any(uses_trig(x) for x in e[1:])


def evalf(e, env, log=None, memo=None):
    """IEEE double evaluation, operation by operation, as ExprF.evalF: x**2 is x*x, % is Python's float %,
    sin/cos are numpy's (their arguments are appended to log)."""
    if memo is None:
        memo = {}
    k = id(e)
    if k in memo:
        return memo[k]
    t = e[0]
    if t == 'Var':
        r = env[e[1]] if e[1] < len(env) else float('nan')
    elif t == 'Cst':
        r = float(e[1])
    elif t == 'CstQ':
        r = _div(float(e[1]), float(e[2]))
    elif t == 'Pi':
        r = PI_F
    elif t in BIN:
        a = evalf(e[1], env, log, memo)
        b = evalf(e[2], env, log, memo)
        if t == 'Add':
            r = a + b
        elif t == 'Sub':
            r = a - b
        elif t == 'Mul':
            r = a * b
        elif t == 'Div':
            r = _div(a, b)
        else:
            r = _mod(a, b)
    else:
        a = evalf(e[1], env, log, memo)
        if t == 'Neg':
            r = -a
        elif t == 'Sq':
            r = a * a
        elif t == 'Sqrt':
            r = math.sqrt(a) if a >= 0 else float('nan')
        else:
            if log is not None:
                log.add(a)
            if a != a or math.isinf(a):
                r = float('nan')
            else:
                r = float(np.sin(np.float64(a))) if t == 'Sin' else float(np.cos(np.float64(a)))
    memo[k] = r
    return r


def _div(a, b):
    try:
        return a / b
    except ZeroDivisionError:
        if a != a or a == 0:
            return float('nan')
        return math.copysign(float('inf'), a) * math.copysign(1.0, b)


def _mod(a, b):
    try:
        if math.isinf(a) or a != a or b != b:
            return float('nan')
        return a % b
    except ZeroDivisionError:
        return float('nan')


def evalm(e, env, memo=None):
    """absolute-value majorant of the same expression (as ExprF.evalM): a cancellation-safe scale"""
    if memo is None:
        memo = {}
    k = id(e)
    if k in memo:
        return memo[k]
    t = e[0]
    if t == 'Var':
        r = abs(env[e[1]])
    elif t == 'Cst':
        r = abs(float(e[1]))
    elif t == 'CstQ':
        r = abs(e[1] / e[2])
    elif t == 'Pi':
        r = PI_F
    elif t in ('Add', 'Sub', 'Mod'):
        r = evalm(e[1], env, memo) + evalm(e[2], env, memo)
    elif t == 'Mul':
        r = evalm(e[1], env, memo) * evalm(e[2], env, memo)
    elif t == 'Div':
        d = abs(evalf(e[2], env))
        r = evalm(e[1], env, memo) / d if d else float('inf')
    elif t == 'Neg':
        r = evalm(e[1], env, memo)
    elif t == 'Sq':
        r = evalm(e[1], env, memo) ** 2
    elif t == 'Sqrt':
        r = math.sqrt(evalm(e[1], env, memo))
    else:
        r = 1.0
    memo[k] = r
    return r


class NotDifferentiable(Exception):
    pass


def evald(e, env, memo=None):
    """forward-mode dual numbers, the rules of ExprR.evalD (proved sound: ExprR.evalD_sound); raises
    NotDifferentiable where the side conditions okD fail (with a margin)."""
    if memo is None:
        memo = {}
    k = id(e)
    if k in memo:
        return memo[k]
    t = e[0]
    if t == 'Var':
        r = env[e[1]]
    elif t == 'Cst':
        r = (float(e[1]), 0.0)
    elif t == 'CstQ':
        r = (e[1] / e[2], 0.0)
    elif t == 'Pi':
        r = (PI_F, 0.0)
    elif t in BIN:
        x, dx = evald(e[1], env, memo)
        y, dy = evald(e[2], env, memo)
        if t == 'Add':
            r = (x + y, dx + dy)
        elif t == 'Sub':
            r = (x - y, dx - dy)
        elif t == 'Mul':
            r = (x * y, dx * y + x * dy)
        elif t == 'Div':
            if abs(y) < 1e-9:
                raise NotDifferentiable('division by ~0')
            r = (x / y, (dx * y - x * dy) / (y * y))
        else:
            if not (y > 0) or dy != 0:
                raise NotDifferentiable('mod by a non-constant / non-positive')
            m = x % y
            if min(m, y - m) < 1e-4:
                raise NotDifferentiable('mod at the wrap-around point')
            r = (m, dx)
    else:
        x, dx = evald(e[1], env, memo)
        if t == 'Neg':
            r = (-x, -dx)
        elif t == 'Sq':
            r = (x * x, 2 * x * dx)
        elif t == 'Sin':
            r = (math.sin(x), math.cos(x) * dx)
        elif t == 'Cos':
            r = (math.cos(x), -math.sin(x) * dx)
        else:
            if not (x > 1e-12):
                raise NotDifferentiable('sqrt at ~0')
            s = math.sqrt(x)
            r = (s, dx / (2 * s))
    memo[k] = r
    return r


# ------------------------------------------------------------------------------- generated pose operators
TOK = re.compile(r'\(|\)|;|-?\d+|[A-Za-z_][A-Za-z_0-9]*')


def _sexp(toks, pos):
    if toks[pos] == '(':
        items = []
        pos += 1
        while toks[pos] != ')':
            it, pos = _sexp(toks, pos)
            items.append(it)
        return items, pos + 1
    return toks[pos], pos + 1


def _intval(s):
    while isinstance(s, list):
        if len(s) != 1:
            raise ValueError('integer expected: %r' % (s,))
        s = s[0]
    return int(s)


def _conv(s):
    if s == 'Pi':
        return ('Pi',)
    if isinstance(s, list):
        if len(s) == 1:
            return _conv(s[0])
        h = s[0]
        if h == 'Var':
            return ('Var', _intval(s[1]))
        if h == 'Cst':
            return ('Cst', _intval(s[1]))
        if h == 'CstQ':
            return ('CstQ', _intval(s[1]), _intval(s[2]))
        if h in BIN and len(s) == 3:
            return (h, _conv(s[1]), _conv(s[2]))
        if h in UN and len(s) == 2:
            return (h, _conv(s[1]))
    raise ValueError('cannot read generated term %r' % (s,))


def load_generated_vec(kind, name):
    """the expression vector of the single unguarded path of gen/Gen<kind>.v:<name>, or None"""
    p = os.path.join(vlib.COQ, 'gen', 'Gen%s.v' % kind)
    try:
        text = open(p).read()
    except OSError:
        return None
    m = re.search(r'Definition %s : meth :=\s*\[\(\[\],\s*RVec (\w+|\([^)]*\)) \[(.*?)\]\)\]\.' % re.escape(name), text, re.S)
    if not m:
        return None
    toks = TOK.findall(m.group(2))
    out = []
    pos = 0
    try:
        while pos < len(toks):
            if toks[pos] == ';':
                pos += 1
                continue
            s, pos = _sexp(toks, pos)
            out.append(_conv(s))
    except (ValueError, IndexError):
        return None
    return out


class Ops:
    """pose operators as expression builders, read from the regenerated model (so the families below are
    literally compositions of the repository's pose operators)"""

    def __init__(self):
        self.sub = {}
        self.compact = {}
        self.missing = []
        for k in KINDS:
            s = load_generated_vec(k, '%s_sub__%s' % (k, k))
            c = load_generated_vec(k, '%s_to_compact' % k)
            if s is None or len(s) != LEN[k]:
                self.missing.append('%s_sub__%s' % (k, k))
            else:
                self.sub[k] = s
            if c is None or len(c) != CDIM[k]:
                self.missing.append('%s_to_compact' % k)
            else:
                self.compact[k] = c

    def ominus(self, k, a, b):
        m = list(a) + list(b)
        memo = {}
        return [subst(e, m, memo) for e in self.sub[k]]

    def to_compact(self, k, a):
        memo = {}
        return [subst(e, list(a), memo) for e in self.compact[k]]


# ------------------------------------------------------------------------------- families of error functions
def offsets(kinds):
    o, offs = 0, []
    for k in kinds:
        offs.append(o)
        o += LEN[k]
    return offs, o


def pose_vars(kinds, i):
    offs, _ = offsets(kinds)
    return [V(offs[i] + j) for j in range(LEN[kinds[i]])]


def pos_vars(kinds, i):
    return pose_vars(kinds, i)[:PDIM[kinds[i]]]


def family(ops, name, kinds):
    """-> (list of expressions over env = pose arrays in slot order ++ params, kind of the estimate or
    ('arr', n)), or None when the family does not apply to these kinds / the operators are unavailable"""
    _, n = offsets(kinds)
    if name in ('distance', 'sqrange'):
        if len(kinds) != 2 or PDIM[kinds[0]] != PDIM[kinds[1]]:
            return None
        a, b = pos_vars(kinds, 0), pos_vars(kinds, 1)
        s = sumx([sq(sub(x, y)) for x, y in zip(a, b)])
        return [sub(sqrt(s) if name == 'distance' else s, V(n))], ('arr', 1)
    if name == 'midpoint':
        if len(kinds) != 3 or len(set(PDIM[k] for k in kinds)) != 1:
            return None
        p0, p1, p2 = (pos_vars(kinds, i) for i in range(3))
        return [sub(sub(p1[i], mul(('CstQ', 1, 2), add(p0[i], p2[i]))), V(n + i)) for i in range(len(p0))], ('arr', len(p0))
    if name == 'relpose':
        k = kinds[0]
        if len(kinds) != 2 or kinds[1] != k or k not in ops.sub or k not in ops.compact:
            return None
        est = [V(n + j) for j in range(LEN[k])]
        inner = ops.ominus(k, pose_vars(kinds, 1), pose_vars(kinds, 0))
        return ops.to_compact(k, ops.ominus(k, est, inner)), k
    if name == 'prior':
        k = kinds[0]
        if len(kinds) != 1 or k not in ops.sub or k not in ops.compact:
            return None
        est = [V(n + j) for j in range(LEN[k])]
        return ops.to_compact(k, ops.ominus(k, pose_vars(kinds, 0), est)), k
    if name == 'between3':
        k = kinds[0]
        if len(kinds) != 3 or any(x != k for x in kinds) or k not in ops.sub or k not in ops.compact:
            return None
        a = ops.to_compact(k, ops.ominus(k, pose_vars(kinds, 2), pose_vars(kinds, 1)))
        b = ops.to_compact(k, ops.ominus(k, pose_vars(kinds, 1), pose_vars(kinds, 0)))
        return [sub(sub(x, y), V(n + i)) for i, (x, y) in enumerate(zip(a, b))], ('arr', CDIM[k])
    return None


def all_families(ops):
    """[(name, kinds, exprs, estkind)] for every applicable combination"""
    out = []
    for name in ('distance', 'sqrange'):
        for a in KINDS:
            for b in KINDS:
                f = family(ops, name, (a, b))
                if f:
                    out.append((name, (a, b)) + f)
    for k in KINDS:
        for name, n in (('prior', 1), ('relpose', 2), ('between3', 3)):
            f = family(ops, name, (k,) * n)
            if f:
                out.append((name, (k,) * n) + f)
    for trip in [('R2', 'R2', 'R2'), ('SE2', 'R2', 'SE2'), ('R2', 'SE2', 'SE2'), ('SE2', 'SE2', 'SE2'),
                 ('R3', 'R3', 'R3'), ('SE3', 'R3', 'SE3'), ('R3', 'SE3', 'SE3'), ('SE3', 'SE3', 'SE3')]:
        f = family(ops, 'midpoint', trip)
        if f:
            out.append(('midpoint', trip) + f)
    return out


# ------------------------------------------------------------------------------- the custom edge (error only)
class ExprEdge(BaseEdge):
    """A custom edge that defines ONLY calc_error (an interpreter of an expression vector over the pose arrays
    of its vertices followed by its parameters) and is_valid: Jacobians come from BaseEdge.calc_jacobians."""

    def __init__(self, vertex_ids, information, estimate, exprs, vertices=None, log=None):
        super().__init__(vertex_ids, information, estimate, vertices)
        self.exprs = exprs
        self.log = log

    def env(self):
        return [float(x) for v in self.vertices for x in np.asarray(v.pose)] + [float(x) for x in np.asarray(self.estimate).reshape(-1)]

    def calc_error(self):
        env = self.env()
        memo = {}
        return np.array([evalf(e, env, self.log, memo) for e in self.exprs], dtype=np.float64)

    def is_valid(self):
        return self._is_valid()


def bits(x):
    return struct.pack('<d', float(x))


def same_bits(a, b):
    if a != a and b != b:
        return True
    return bits(a) == bits(b)


# ------------------------------------------------------------------------------- cases
def gen_case(rng, fams, flavour=None):
    """-> dict(family, kinds, vals=[per slot values], share=[slot index whose OBJECT this slot reuses or None], params)"""
    nm = rng.choice(sorted(set(f[0] for f in fams)))
    name, kinds, exprs, estk = rng.choice([f for f in fams if f[0] == nm])
    fl = flavour or rng.choices(['typical', 'adversarial', 'shared'], [0.5, 0.3, 0.2])[0]
    pfl = 'adversarial' if fl == 'adversarial' else 'typical'
    vals = [corr_poses.gen_pose_vals(rng, k, pfl) for k in kinds]
    if fl != 'typical':
        # the classes of input this property is sensitive to: negative scalar part, angle next to +-pi
        for i, k in enumerate(kinds):
            if k == 'SE3' and rng.random() < 0.6:
                q = vals[i][3:]
                if q[3] > 0:
                    vals[i][3:] = [-x for x in q]
            if k == 'SE2' and rng.random() < 0.5:
                vals[i][2] = rng.choice([PI_F, -PI_F, math.nextafter(PI_F, 0), math.nextafter(-PI_F, 0),
                                         PI_F - 3e-7, -PI_F + 3e-7, PI_F - 1e-6, -PI_F + 1e-6])
    share = [None] * len(kinds)
    if fl == 'shared' and len(kinds) > 1:
        for i in range(1, len(kinds)):
            cands = [j for j in range(i) if kinds[j] == kinds[i] and share[j] is None]
            if cands and rng.random() < 0.8:
                share[i] = rng.choice(cands)
                vals[i] = list(vals[share[i]])
    if isinstance(estk, tuple):
        if pfl == 'typical':
            params = [rng.gauss(0, 3) for _ in range(estk[1])]
        else:
            params = corr_poses.gen_trans(rng, estk[1], 'adversarial')
    else:
        pv = corr_poses.gen_pose_vals(rng, estk, pfl)
        params = [float(x) for x in np.asarray(corr_poses.make_pose(estk, pv))]
    case = {'family': name, 'kinds': list(kinds), 'vals': vals, 'share': share, 'params': params, 'flavour': fl}
    # circumstances that must not matter to the numerical Jacobians of THIS edge: some of its vertices are marked fixed (an anchor, or the first
    # vertex after an earlier optimize()); another edge of the same class over the same vertices, with another measurement, was differentiated first
    case['fixed'] = [rng.random() < 0.3 for _ in kinds]
    if rng.random() < 0.15:
        case['eps'] = rng.choice([1e-7, 1e-5, 2.0 ** -20])       # an edge class that overrides the documented step _NUMERICAL_DIFFERENTIATION_EPSILON
    if rng.random() < 0.3:
        if isinstance(estk, tuple):
            case['decoy_params'] = [x + rng.choice([1.0, -0.5, 2.25]) for x in params]
        else:
            pv2 = corr_poses.gen_pose_vals(rng, estk, 'typical')
            case['decoy_params'] = [float(x) for x in np.asarray(corr_poses.make_pose(estk, pv2))]
    return case


def build_vertices(case):
    """the vertices of the case; slots marked in `share` reuse the SAME pose object (SE2/SE3) or a pose built on
    the same numpy buffer (R2/R3: PoseR2.__new__ uses np.asarray)"""
    vs = []
    bufs = {}
    for i, (k, v) in enumerate(zip(case['kinds'], case['vals'])):
        j = case['share'][i]
        if j is not None:
            if k in ('R2', 'R3'):
                pose = corr_poses.CLS[k](bufs[j])
            else:
                pose = vs[j].pose
        else:
            if k in ('R2', 'R3'):
                bufs[i] = np.array(v, dtype=np.float64)
                pose = corr_poses.CLS[k](bufs[i])
            else:
                pose = corr_poses.make_pose(k, v)
        vs.append(Vertex(10 + 3 * i, pose, fixed=bool((case.get('fixed') or [False] * 9)[i])))
    return vs


def find_family(fams, case):
    for name, kinds, exprs, estk in fams:
        if name == case['family'] and list(kinds) == list(case['kinds']):
            return exprs
    return None


def run_real(case, exprs):
    """-> dict(start=[arrays], err0, jac=[2-D lists], final=[(kind name, array)], trig=set) or dict(exc=...)"""
    log = set()
    vs = build_vertices(case)
    start = [[float(x) for x in np.asarray(v.pose)] for v in vs]
    # sin/cos arguments that `pose += delta` may use: the stored angle, and the angle after copy() / copy().copy()
    for v in vs:
        if type(v.pose).__name__ == 'PoseSE2':
            try:
                log.add(float(v.pose[2]))
                c1 = v.pose.copy()
                log.add(float(c1[2]))
                log.add(float(c1.copy()[2]))
            except Exception:  # noqa
                pass
    if case.get('decoy_params') is not None:
        try:
            ExprEdge([v.id for v in vs], np.eye(len(exprs)), np.array(case['decoy_params'], dtype=np.float64), exprs, vs, set()).calc_jacobians()
        except Exception:  # noqa
            pass
    cls_e = ExprEdge
    if case.get('eps'):
        cls_e = type('ExprEdgeWithOwnStep', (ExprEdge,), {'_NUMERICAL_DIFFERENTIATION_EPSILON': float(case['eps'])})
    e = cls_e([v.id for v in vs], np.eye(len(exprs)), np.array(case['params'], dtype=np.float64), exprs, vs, log)
    try:
        err0 = [float(x) for x in e.calc_error()]
        jac = e.calc_jacobians()
    except Exception as ex:  # noqa
        return {'exc': '%s: %s' % (type(ex).__name__, ex), 'start': start, 'trig': log}
    return {'start': start, 'err0': err0, 'jac': [[[float(x) for x in row] for row in np.asarray(j)] for j in jac],
            'final': [(type(v.pose).__name__.replace('Pose', ''), [float(x) for x in np.asarray(v.pose)]) for v in vs],
            'trig': log, 'h': float(e._NUMERICAL_DIFFERENTIATION_EPSILON)}


def decode_case(ints):
    """inverse of FDModelF.dump_case (without MAGIC)"""
    pos = [0]

    def nat():
        v = ints[pos[0]]
        pos[0] += 1
        return v

    def flist():
        n = nat()
        out = []
        for _ in range(n):
            out.append(vlib.undump(ints[pos[0]], ints[pos[0] + 1]))
            pos[0] += 2
        return out
    err0 = flist()
    nv = nat()
    jac = []
    for _ in range(nv):
        nc = nat()
        jac.append([flist() for _ in range(nc)])          # columns
    final = []
    while pos[0] < len(ints):
        kc = nat()
        final.append((kc, flist()))
    return err0, jac, final


TOL = 2.0 ** -40


def compare(case, exprs, real, cq):
    """-> (ok, exact, total, why)"""
    if 'exc' in real:
        return False, 0, 1, 'the implementation raised ' + real['exc']
    err0, jac, final = cq
    ex = tot = 0
    if len(err0) != len(real['err0']):
        return False, 0, 1, 'error length differs'
    for i, (a, b) in enumerate(zip(real['err0'], err0)):
        tot += 1
        if not same_bits(a, b):
            return False, ex, tot, 'calc_error component %d: impl %r model %r (the two interpreters of the same expression differ)' % (i, a, b)
        ex += 1
    if len(jac) != len(real['jac']):
        return False, ex, tot, 'number of Jacobians differs: impl %d model %d' % (len(real['jac']), len(jac))
    env = [x for v in real['start'] for x in v] + list(case['params'])
    maj = [evalm(e, env) for e in exprs]
    h = real['h']
    for k, (jr, jm) in enumerate(zip(real['jac'], jac)):
        ncols = len(jr[0]) if jr else 0
        if len(jm) != ncols or any(len(c) != len(jr) for c in jm):
            return False, ex, tot, 'Jacobian %d shape differs: impl %dx%d model %d columns of %s rows' % (
                k, len(jr), ncols, len(jm), [len(c) for c in jm])
        for d in range(ncols):
            for i in range(len(jr)):
                tot += 1
                a, b = jr[i][d], jm[d][i]
                if same_bits(a, b) or (a == b):
                    ex += 1
                    continue
                if a != a or b != b or math.isinf(a) or math.isinf(b) or not abs(a - b) <= TOL * max(maj[i], 1e-300) / h:
                    return False, ex, tot, 'Jacobian of slot %d, row %d, column %d: impl %r model %r (scale %r)' % (k, i, d, a, b, maj[i] / h)
    if len(final) != len(real['final']):
        return False, ex, tot, 'number of poses differs'
    for k, ((kn, fr), (kc, fm)) in enumerate(zip(real['final'], final)):
        tot += 1
        if KCODE.get(kn) != kc or len(fr) != len(fm) or not all(same_bits(a, b) for a, b in zip(fr, fm)):
            return False, ex, tot, 'pose of slot %d after calc_jacobians: impl %s %r model (%s) %r' % (k, kn, fr, kc, fm)
        ex += 1
    return True, ex, tot, ''


def coq_source(fams, rows):
    """rows: [(case, famindex, real)]"""
    lines = ['From Coq Require Import ZArith List Floats.PrimFloat.',
             'From GS Require Import Expr Meth ExprF FDModel FDModelF.',
             'Import ListNotations.', 'Open Scope float_scope.']
    used = sorted(set(fi for _, fi, _ in rows))
    for fi in used:
        lines.append('Definition fam_%d : list expr := [%s].' % (fi, '; '.join(to_coq(e) for e in fams[fi][2])))
    lines.append('Definition cases : list (trig_table * float * list expr * list float * list poseF) := [')
    items = []
    for case, fi, real in rows:
        trig = sorted(x for x in real['trig'] if x == x and not math.isinf(x))
        tt = '; '.join('(%s, (%s, %s))' % (vlib.coqf(x), vlib.coqf(float(np.sin(np.float64(x)))), vlib.coqf(float(np.cos(np.float64(x))))) for x in trig)
        st = '; '.join('(%s, [%s])' % (KCOQ[k], '; '.join(vlib.coqf(x) for x in v)) for k, v in zip(case['kinds'], real['start']))
        items.append('  ([%s], %s, fam_%d, [%s], [%s])' % (tt, vlib.coqf(real.get('h', 1e-6)), fi,
                                                           '; '.join(vlib.coqf(x) for x in case['params']), st))
    lines.append(';\n'.join(items))
    lines.append('].')
    lines.append('Eval vm_compute in flat_map (fun c => match c with (t, h, es, ps, s) => dump_case t h es ps s end) cases.')
    return '\n'.join(lines) + '\n'


def run(seed, ncases, corpus=None):
    rng = random.Random(seed)
    ops = Ops()
    fams = all_families(ops)
    res = {'evaluations': 0, 'agree': 0, 'components': 0, 'exact_components': 0, 'disagreements': [], 'coq_errors': [],
           'hist': {'flavour': {}, 'family': {}, 'kind': {}, 'slots': {}, 'shared_object_cases': 0, 'w_negative_poses': 0,
                    'angle_within_1e-5_of_pi': 0}, 'families': len(fams), 'missing_generated_operators': ops.missing}
    okm, logm = vlib.make(['lib/FDModelF.vo'])
    if not okm or not vlib.vo_ok('lib/FDModelF.vo'):
        res['coq_errors'].append({'file': 'make lib/FDModelF.vo', 'out': logm[-1500:]})
        return res
    cases = [dict(c) for c in (corpus or [])]
    while len(cases) < ncases + len(corpus or []):
        cases.append(gen_case(rng, fams))
    rows = []
    for c in cases:
        fi = next((i for i, f in enumerate(fams) if f[0] == c['family'] and list(f[1]) == list(c['kinds'])), None)
        if fi is None:
            continue
        real = run_real(c, fams[fi][2])
        rows.append((c, fi, real))
        h = res['hist']
        h['flavour'][c.get('flavour', 'corpus')] = h['flavour'].get(c.get('flavour', 'corpus'), 0) + 1
        h['family'][c['family']] = h['family'].get(c['family'], 0) + 1
        h['slots'][str(len(c['kinds']))] = h['slots'].get(str(len(c['kinds'])), 0) + 1
        for k, v in zip(c['kinds'], real['start']):
            h['kind'][k] = h['kind'].get(k, 0) + 1
            if k == 'SE3' and v[6] < 0:
                h['w_negative_poses'] += 1
            if k == 'SE2' and abs(abs(v[2]) - PI_F) < 1e-5:
                h['angle_within_1e-5_of_pi'] += 1
        if any(s is not None for s in c['share']):
            h['shared_object_cases'] += 1
    CH = 200
    srcs = [('fd_%04d' % (i // CH), coq_source(fams, rows[i:i + CH])) for i in range(0, len(rows), CH)]
    outs = vlib.coq_eval_files(srcs, timeout=600)
    for ci, (name, _) in enumerate(srcs):
        rc, out = outs[name]
        chunk = rows[ci * CH:(ci + 1) * CH]
        if rc != 0:
            res['coq_errors'].append({'file': name, 'rc': rc, 'out': out[-1500:]})
            continue
        parts = vlib.split_magic(vlib.parse_ints(out))
        if len(parts) != len(chunk):
            res['coq_errors'].append({'file': name, 'rc': rc, 'out': 'expected %d results, got %d' % (len(chunk), len(parts))})
            continue
        for (c, fi, real), ints in zip(chunk, parts):
            try:
                cq = decode_case(ints)
            except IndexError:
                res['coq_errors'].append({'file': name, 'out': 'undecodable result'})
                continue
            ok, ex, tot, why = compare(c, fams[fi][2], real, cq)
            res['evaluations'] += 1
            res['components'] += tot
            res['exact_components'] += ex
            if ok:
                res['agree'] += 1
            else:
                res['disagreements'].append({'case': c, 'why': why})
    return res


if __name__ == '__main__':
    vlib.regen()
    r = run(int(os.environ.get('VERIF_SEED', '1')), int(sys.argv[1]) if len(sys.argv) > 1 else 60)
    r2 = dict(r)
    r2['disagreements'] = r['disagreements'][:5]
    print(json.dumps(r2, indent=1, default=str)[:8000])
