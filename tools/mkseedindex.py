#!/usr/bin/env python3
"""mkseedindex.py -- developer tool (not registered in MANIFEST.json): regenerate seeded/INDEX.md from the meta.json files
written by tools/seedtest.py, and print the totals quoted in DESIGN.md section 10."""
import glob
import json
import os
import re

ROOT = os.path.dirname(os.path.dirname(os.path.abspath(__file__)))


def short(t, n=230):
    t = ' '.join(str(t).split()).replace('|', '\\|')
    return t if len(t) <= n else t[:n - 1].rstrip() + '…'


def oblig(o):
    if o.startswith('make props/'):
        return 'theorem (`%s`)' % o.split()[1]
    if o.startswith('make lib/'):
        return 'model build (`%s`)' % o.split()[1]
    if o.startswith('translator'):
        return 'translator (fail-closed)'
    m = re.match(r'correspondence ([0-9.]+)? ?(\([^)]*\))?', o)
    if o.startswith('correspondence'):
        return ('corr. %s %s' % (m.group(1) or '', m.group(2) or '')).strip().rstrip(':') if m else 'correspondence'
    if o.startswith('the model still mirrors'):
        return 'class-structure reflection'
    if o.startswith('corpus'):
        return 'corpus'
    if o.startswith('check machinery'):
        return 'harness crashed'
    if o.startswith('forbidden') or o.startswith('no forbidden'):
        return 'token scan'
    return None        # direct oracles are the search, not an obligation of the proof / correspondence


def main():
    rows, tot = [], {'n': 0, 'det': 0, 'inp': 0, 'oracle_only': 0}
    for d in sorted(glob.glob(os.path.join(ROOT, 'seeded', 'C*_m*')), key=lambda p: (os.path.basename(p).split('_')[0], int(os.path.basename(p).split('_m')[1]))):
        name = os.path.basename(d)
        m = json.load(open(os.path.join(d, 'meta.json')))
        ch = list(m.get('confirmed', {}).get('checks', {}).values())
        c = ch[0] if ch else {}
        obs = []
        for o in c.get('broken_obligations', []):
            s = oblig(o)
            if s and s not in obs:
                obs.append(s)
        det, inp = bool(c.get('detected')), bool(c.get('with_failing_input'))
        tot['n'] += 1
        tot['det'] += det
        tot['inp'] += inp
        tot['oracle_only'] += det and not obs
        rows.append('| `%s` | %s | %s | %s | %s |' % (name, short(m.get('summary', '')), short(m.get('needs', ''), 180), ', '.join(obs) or 'oracle',
                                                      'yes' if inp else ('no-failing-input-found' if det else '**NOT DETECTED**')))
    head = '''# Seeded changes kept under /verif/seeded

One directory per change: `patch.diff` (apply to a worktree of /repo, never to /repo itself), `demo.py` (the author's demonstration:
exits 0 on the unchanged code, non-zero with the patch), `meta.json` (author's description + the confirmation record of
`tools/seedtest.py`: demo and test-suite results, VIOLATION lines, obligations that broke). `neutral_*` are behaviour-preserving
rewrites that must NOT alarm. Rounds: m1-m2 = round 1, m3-m4 = round 2, m5-m6 = round 3, m7-m8 = round 4, m9-m10 = round 5, m11-m12 = round 6. Results
below are those of the last full pass (`tools/seeded_all.sh`); regenerate with `python3 tools/mkseedindex.py`.

Totals: %(n)d changes, %(det)d detected, %(inp)d with a concrete failing input, %(oracle_only)d found by a direct oracle alone.

| seed | change | needs, to manifest | obligation(s) that broke | failing input |
|---|---|---|---|---|
''' % tot
    open(os.path.join(ROOT, 'seeded', 'INDEX.md'), 'w').write(head + '\n'.join(rows) + '\n')
    print(tot)


if __name__ == '__main__':
    main()
