#!/usr/bin/env python3
"""mkprops.py Cxx "<comment>" -- developer helper (not used by the checks): writes coq/props/Cxx.v from
coq/proofs/Cxx_all.v by copying the imports and the statement of `Lemma Cxx_all`, so that the props
file holds only  Theorem Cxx : <statement>. Proof. exact Cxx_all. Qed. Print Assumptions Cxx."""
import sys, os
pid, comment = sys.argv[1], sys.argv[2]
coq = os.path.join(os.path.dirname(os.path.abspath(__file__)), '..', 'coq')
s = open(os.path.join(coq, 'proofs', pid + '_all.v')).read()
a = s.index('Lemma %s_all :' % pid)
b = s.index('\nProof.', a)
stmt = s[a + len('Lemma %s_all :' % pid):b].rstrip()
hdr = s[s.index('From Coq'):a].rstrip()
# add the _all module to the last GS import line
lines = hdr.split('\n')
for i in range(len(lines) - 1, -1, -1):
    if lines[i].rstrip().endswith('.') and ('From GS' in lines[i] or lines[i].startswith('  ')):
        lines[i] = lines[i].rstrip()[:-1] + ' %s_all.' % pid
        break
hdr = '\n'.join(lines)
out = '(* props/%s.v -- %s\n   Only the statement, closed by [exact]; proofs are in proofs/%s_*.v. *)\n' % (pid, comment, pid)
out += hdr + '\n\nTheorem %s :%s\nProof. exact %s_all. Qed.\nPrint Assumptions %s.\n' % (pid, stmt, pid, pid)
open(os.path.join(coq, 'props', pid + '.v'), 'w').write(out)
