#!/usr/bin/env python3
"""seedtest.py <property> <src_dir> <name> [--tier quick] -- developer tool for seeded-change testing.

Takes a candidate change produced independently (patch.diff, demo.py, meta.json in <src_dir>), and in a
scratch worktree of /repo: (1) runs demo.py on the unchanged code (must pass), (2) applies the patch,
(3) runs demo.py (must fail), (4) runs the repository's test-suite (must pass), (5) runs the property's
check against the patched worktree in scratch mode (VERIF_REPO / VERIF_SCRATCH) and records whether it
reports a VIOLATION and with what replay.  Keeps the change as /verif/seeded/<name>/ when (1)-(4) hold.
Nothing is ever applied to /repo itself."""
import json
import os
import shutil
import subprocess
import sys
import time

VERIF = os.path.dirname(os.path.dirname(os.path.abspath(__file__)))


def sh(cmd, timeout=1800, env=None, cwd=None):
    e = dict(os.environ)
    if env:
        e.update(env)
    try:
        p = subprocess.run(cmd, shell=True, timeout=timeout, env=e, cwd=cwd, stdout=subprocess.PIPE, stderr=subprocess.STDOUT, text=True)
        return p.returncode, p.stdout
    except subprocess.TimeoutExpired as ex:
        return 124, (ex.stdout or b'').decode(errors='replace') if isinstance(ex.stdout, bytes) else (ex.stdout or '')


def main():
    pid, src, name = sys.argv[1], sys.argv[2], sys.argv[3]
    tier = 'quick'
    skip_tests = '--skip-tests' in sys.argv
    props = [pid] + [a for a in sys.argv[4:] if a.startswith('C')]
    wt = '/tmp/wt/st_%s' % name
    scratch = '/tmp/wt/st_%s_scratch' % name
    sh('git -C /repo worktree remove --force %s' % wt)
    shutil.rmtree(scratch, ignore_errors=True)
    rc, out = sh('git -C /repo worktree add -q %s HEAD' % wt)
    if rc != 0:
        print(out)
        return 2
    res = {'ran_at': time.strftime('%Y-%m-%d %H:%M:%S'), 'repo_head': sh('git -C /repo log --format=%h -1')[1].strip()}
    try:
        env = {'PYTHONPATH': wt, 'REPO': wt}
        demo = os.path.join(src, 'demo.py')
        rc0, o0 = sh('/venv/bin/python %s %s' % (demo, wt), env=env, timeout=600)
        res['demo_without_patch'] = {'rc': rc0, 'tail': o0[-400:]}
        rc, out = sh('git -C %s apply %s' % (wt, os.path.join(src, 'patch.diff')))
        if rc != 0:
            res['apply'] = out
            print(json.dumps(res, indent=1))
            return 2
        rc1, o1 = sh('/venv/bin/python %s %s' % (demo, wt), env=env, timeout=600)
        res['demo_with_patch'] = {'rc': rc1, 'tail': o1[-400:]}
        if skip_tests:
            res['test_suite'] = {'rc': None, 'tail': 'skipped by request'}
            rct = 0
        else:
            rct, ot = sh('cd %s && /venv/bin/python -m pytest -q -p no:cacheprovider --timeout=900 -x 2>&1 | tail -3' % wt, env={'PYTHONPATH': wt}, timeout=1500)
            res['test_suite'] = {'rc': rct, 'tail': ot[-300:]}
            rct = 0 if ' passed' in ot and ' failed' not in ot and 'error' not in ot.lower() else 1
        res['valid_seed'] = (rc0 == 0 and ('FAIL' in o1 or rc1 != 0) and rct == 0)
        checks = {}
        for p in props:
            t0 = time.time()
            rcc, oc = sh('cd %s && /venv/bin/python tools/check.py %s --tier %s' % (VERIF, p, tier),
                         env={'VERIF_REPO': wt, 'VERIF_SCRATCH': scratch, 'PYTHONPATH': wt, 'PYTHONHASHSEED': '0'}, timeout=3000)
            lines = [l for l in oc.splitlines() if l.startswith(('VIOLATION', 'KNOWN-FINDING'))]
            replay = None
            for l in lines:
                if l.startswith('VIOLATION') and 'replay=' in l:
                    rp = l.split('replay=')[1].split()[0]
                    try:
                        d = json.load(open(rp))
                        replay = {k: (v if len(json.dumps(v, default=str)) < 600 else str(v)[:600]) for k, v in d.items() if k not in ('analytic', 'numeric', 'make_log_tail')}
                    except Exception as ex:  # noqa
                        replay = {'error': str(ex)}
            broken = None
            try:
                evd = json.load(open(os.path.join(scratch, 'evidence', p + '.json')))
                broken = [o['name'][:160] for o in evd['coverage'].get('obligation_list', []) if not o['ok']]
            except Exception as ex:  # noqa
                broken = ['(evidence not readable: %s)' % ex]
            checks[p] = {'broken_obligations': broken, 'rc': rcc, 'lines': [l[:300] for l in lines], 'detected': rcc == 1 and any(l.startswith('VIOLATION') for l in lines),
                         'with_failing_input': any(l.startswith('VIOLATION') and 'no-failing-input-found' not in l for l in lines),
                         'wall_s': round(time.time() - t0, 1), 'replay': replay}
        res['checks'] = checks
    finally:
        sh('git -C /repo worktree remove --force %s' % wt)
        shutil.rmtree(scratch, ignore_errors=True)
    if res.get('valid_seed'):
        dst = os.path.join(VERIF, 'seeded', name)
        os.makedirs(dst, exist_ok=True)
        if os.path.realpath(src) != os.path.realpath(dst):
            shutil.copy(os.path.join(src, 'patch.diff'), dst)
            shutil.copy(os.path.join(src, 'demo.py'), dst)
        meta = {}
        try:
            meta = json.load(open(os.path.join(src, 'meta.json')))
        except Exception:  # noqa
            pass
        if skip_tests:
            try:
                prev = json.load(open(os.path.join(dst, 'meta.json')))['confirmed']['test_suite']
                if prev.get('rc') is not None:
                    res['test_suite'] = dict(prev, note='from the previous confirmation run of the same patch')
            except Exception:  # noqa
                pass
        meta.pop('confirmed', None)
        meta.update({'property': pid, 'confirmed': res})
        json.dump(meta, open(os.path.join(dst, 'meta.json'), 'w'), indent=1, default=str)
    print(json.dumps({'name': name, 'valid_seed': res.get('valid_seed'), 'demo_without': res.get('demo_without_patch', {}).get('rc'),
                      'demo_with': res.get('demo_with_patch', {}).get('rc'), 'tests': res.get('test_suite', {}).get('tail', '')[-80:],
                      'checks': {p: (c['detected'], c['with_failing_input'], c['wall_s']) for p, c in res.get('checks', {}).items()}}, default=str))
    return 0


if __name__ == '__main__':
    sys.exit(main())
