#!/bin/bash
# developer tool: run every thorough check on the unchanged tree, log wall time and any alarm
cd /verif
out=build/thorough.log; : > $out
for p in "$@"; do
  s=$(date +%s)
  r=$(PYTHONPATH=/repo PYTHONHASHSEED=0 timeout 7200 /venv/bin/python tools/check.py $p --tier thorough 2>&1 | grep "VIOLATION\|Traceback\|Error" | head -3)
  e=$(date +%s)
  echo "$p wall=$((e-s))s ${r:0:300}" >> $out
done
echo DONE >> $out
