"""vlib.py -- shared plumbing of the checks: regeneration of the generated Coq model, locked `make`,
evaluation of case files inside Coq, float <-> Coq literal conversion, evidence files, violation
reports and the known-findings protocol."""
import fcntl
import json
import math
import os
import re
import subprocess
import sys
import time

VERIF = os.path.dirname(os.path.dirname(os.path.abspath(__file__)))
REPO = os.environ.get('VERIF_REPO', '/repo')
# VERIF_SCRATCH=<dir>: developer option for testing the checks against a modified copy of the repository
# (VERIF_REPO) without disturbing the main build: coq/ is mirrored into <dir>/coq, build output and
# evidence go under <dir>.  The registered commands never set it.
SCRATCH = os.environ.get('VERIF_SCRATCH')
if SCRATCH:
    os.makedirs(SCRATCH, exist_ok=True)
    subprocess.run(['rsync', '-a', '--delete', '--exclude', 'Makefile*', '--exclude', '.Makefile.d',
                    os.path.join(VERIF, 'coq') + '/', os.path.join(SCRATCH, 'coq') + '/'], check=True)
    COQ = os.path.join(SCRATCH, 'coq')
    BUILD = os.path.join(SCRATCH, 'build')
    EVID = os.path.join(SCRATCH, 'evidence')
else:
    COQ = os.path.join(VERIF, 'coq')
    BUILD = os.path.join(VERIF, 'build')
    EVID = os.path.join(VERIF, 'evidence')
PY = '/venv/bin/python'
MAGIC = 777000777

os.makedirs(os.path.join(BUILD, 'corr'), exist_ok=True)
os.makedirs(os.path.join(BUILD, 'replays'), exist_ok=True)
os.makedirs(EVID, exist_ok=True)


class Lock:
    def __init__(self, name='build'):
        self.path = os.path.join(BUILD, name + '.lock')

    def __enter__(self):
        self.f = open(self.path, 'w')
        fcntl.flock(self.f, fcntl.LOCK_EX)
        return self

    def __exit__(self, *a):
        fcntl.flock(self.f, fcntl.LOCK_UN)
        self.f.close()


def sh(cmd, timeout=600, cwd=None, env=None):
    e = dict(os.environ)
    if env:
        e.update(env)
    try:
        p = subprocess.run(cmd, shell=isinstance(cmd, str), cwd=cwd, env=e, timeout=timeout,
                           stdout=subprocess.PIPE, stderr=subprocess.STDOUT, text=True)
        return p.returncode, p.stdout
    except subprocess.TimeoutExpired as ex:
        out = ex.stdout or ''
        if isinstance(out, bytes):
            out = out.decode(errors='replace')
        return 124, out + '\n[timeout after %ss]' % timeout


FORBIDDEN = re.compile(r'\b(Admitted|admit|Axiom|Axioms|Parameter|Parameters|Conjecture|Conjectures|'
                       r'Admit Obligations|bypass_check)\b|Unset\s+Guard|Unset\s+Positivity|Unset\s+Universe|'
                       r'type-in-type|impredicative-set')


def forbidden_scan():
    """Returns the list of offending (file, line, text).  Variable/Hypothesis are allowed only inside
    a Section (checked textually: a Section must be open at that point)."""
    bad = []
    for root, _, files in os.walk(COQ):
        for fn in files:
            if not fn.endswith('.v'):
                continue
            p = os.path.join(root, fn)
            depth = 0
            in_comment = 0
            for i, line in enumerate(open(p, errors='replace'), 1):
                # strip comments (nesting-aware, line-based approximation that is conservative:
                # text inside comments is ignored)
                out = ''
                j = 0
                while j < len(line):
                    if line.startswith('(*', j):
                        in_comment += 1
                        j += 2
                    elif line.startswith('*)', j) and in_comment:
                        in_comment -= 1
                        j += 2
                    else:
                        if not in_comment:
                            out += line[j]
                        j += 1
                if re.match(r'\s*Section\s', out):
                    depth += 1
                if re.match(r'\s*End\s', out) and depth:
                    depth -= 1
                if FORBIDDEN.search(out):
                    bad.append((p, i, out.strip()))
                if re.match(r'\s*(Variable|Variables|Hypothesis|Hypotheses|Context)\b', out) and depth == 0:
                    bad.append((p, i, out.strip()))
    return bad


def regen():
    """Run the translators against REPO's working tree.  Returns the merged summary."""
    with Lock('regen'):
        summ = {}
        for tr in ('tr_poses.py', 'tr_edges.py', 'tr_effects.py'):
            tp = os.path.join(VERIF, 'tools', tr)
            if not os.path.exists(tp):
                continue
            js = os.path.join(BUILD, tr.replace('.py', '.json'))
            rc, out = sh([sys.executable, tp, '--repo', REPO, '--out', os.path.join(COQ, 'gen'), '--json', js])
            if rc != 0:
                summ[tr] = {'error': out[-2000:]}
            else:
                summ[tr] = json.load(open(js))
        return summ


def ensure_makefile():
    mk = os.path.join(COQ, 'Makefile')
    proj = os.path.join(COQ, '_CoqProject')
    vs = sorted(os.path.relpath(os.path.join(r, f), COQ) for r, _, fs in os.walk(COQ) for f in fs if f.endswith('.v'))
    lst = os.path.join(BUILD, 'vfiles.txt')
    cur = '\n'.join(vs)
    if not os.path.exists(mk) or not os.path.exists(lst) or open(lst).read() != cur \
            or os.path.getmtime(proj) > os.path.getmtime(mk):
        rc, out = sh('coq_makefile -f _CoqProject %s -o Makefile' % ' '.join(vs), cwd=COQ)
        if rc != 0:
            raise RuntimeError('coq_makefile failed: ' + out)
        open(lst, 'w').write(cur)


def make(targets, timeout=1500, jobs=16):
    """make the given .vo targets (paths relative to coq/). Returns (ok, log)."""
    with Lock('build'):
        ensure_makefile()
        t = ' '.join(targets)
        rc, out = sh('timeout %d make -j%d -k %s 2>&1' % (timeout, jobs, t), cwd=COQ, timeout=timeout + 30)
        return rc == 0, out


def vo_ok(target):
    """is coq/<target> (a .vo path) up to date after make?"""
    p = os.path.join(COQ, target)
    src = p[:-1]
    return os.path.exists(p) and os.path.getmtime(p) >= os.path.getmtime(src)


# ---------------------------------------------------------------------------------------------
# floats
def coqf(x):
    x = float(x)
    if x != x:
        return 'nan'
    if x == float('inf'):
        return 'infinity'
    if x == float('-inf'):
        return 'neg_infinity'
    h = x.hex()
    if h.startswith('-'):
        return '(-%s)' % h[1:]
    return h


def undump(m, e):
    if e == 99999:
        return float('nan') if m == 0 else (float('inf') if m > 0 else float('-inf'))
    if m == 0:
        return -0.0 if e == -1 else 0.0
    return math.ldexp(m, e)


INT = re.compile(r'-?\d+')


def parse_ints(text):
    # keep only what follows the '=' of Eval output; drop the trailing ': type' annotation lines
    body = []
    for line in text.splitlines():
        if line.lstrip().startswith(':'):
            continue
        body.append(line)
    return [int(t) for t in INT.findall(' '.join(body).replace('%Z', ''))]


def split_magic(ints):
    out, cur = [], None
    for v in ints:
        if v == MAGIC:
            if cur is not None:
                out.append(cur)
            cur = []
        elif cur is not None:
            cur.append(v)
    if cur is not None:
        out.append(cur)
    return out


def _raise_stack():
    """printing the result of a large Eval vm_compute overflows the default 8 MB stack of coqc: lift the soft limit to the hard one"""
    try:
        import resource
        soft, hard = resource.getrlimit(resource.RLIMIT_STACK)
        want = hard if hard != resource.RLIM_INFINITY else resource.RLIM_INFINITY
        resource.setrlimit(resource.RLIMIT_STACK, (want, hard))
    except Exception:  # noqa
        pass


def coq_eval_files(named_sources, timeout=600, jobs=16):
    """named_sources: list of (name, text).  Writes build/corr/<name>.v, runs coqc on each in
    parallel, returns {name: (rc, stdout)}."""
    d = os.path.join(BUILD, 'corr')
    procs = {}
    res = {}
    pending = list(named_sources)
    running = []

    def start(name, text):
        p = os.path.join(d, name + '.v')
        with open(p, 'w') as f:
            f.write(text)
        cmd = ['timeout', str(timeout), 'coqc', '-R', COQ, 'GS', '-w', '-all', p]
        of = open(os.path.join(d, name + '.out'), 'w')
        return subprocess.Popen(cmd, cwd=d, stdout=of, stderr=subprocess.STDOUT, text=True, preexec_fn=_raise_stack)

    while pending or running:
        while pending and len(running) < jobs:
            name, text = pending.pop(0)
            running.append((name, start(name, text)))
        still = []
        for name, pr in running:
            if pr.poll() is None:
                still.append((name, pr))
            else:
                out = open(os.path.join(d, name + '.out'), errors='replace').read()
                res[name] = (pr.returncode, out)
                for ext in ('.vo', '.vok', '.vos', '.glob') + (('.v', '.out') if pr.returncode == 0 else ()):   # keep the sources of a failed evaluation
                    try:
                        os.remove(os.path.join(d, name + ext))
                    except OSError:
                        pass
                try:
                    os.remove(os.path.join(d, '.' + name + '.aux'))
                except OSError:
                    pass
        running = still
        if running:
            time.sleep(0.05)
    return res


# ---------------------------------------------------------------------------------------------
# verdicts
def load_known():
    p = os.path.join(VERIF, 'known_findings.json')
    if not os.path.exists(p):
        return []
    return json.load(open(p)).get('findings', [])


class Report:
    """Collects what a check did; writes evidence; prints verdict lines; computes exit status."""

    def __init__(self, pid, tier, seed, level='proof'):
        self.pid = pid
        self.tier = tier
        self.seed = seed
        self.level = level
        self.t0 = time.time()
        self.cov = {'obligations': 0, 'discharged': 0, 'checker_cmd': '', 'trusted_base': [],
                    'samples': [], 'evaluations': 0, 'distinct_nontrivial': 0, 'rule': ''}
        self.assumptions = []
        self.violations = []   # (replay_path, no_input_found)
        self.known_hits = []

    def obligation(self, name, ok, detail=''):
        self.cov['obligations'] += 1
        if ok:
            self.cov['discharged'] += 1
        self.cov.setdefault('obligation_list', []).append({'name': name, 'ok': bool(ok), 'detail': detail[-1500:] if not ok else ''})

    def replay(self, kind, payload, no_input=False):
        n = len([f for f in os.listdir(os.path.join(BUILD, 'replays')) if f.startswith(self.pid + '_')])
        p = os.path.join(BUILD, 'replays', '%s_%s_%d_%d.json' % (self.pid, kind, int(time.time()), n))
        payload = dict(payload)
        payload['property'] = self.pid
        payload['kind'] = kind
        payload['no_failing_input_found'] = bool(no_input)
        with open(p, 'w') as f:
            json.dump(payload, f, indent=1, default=str)
        return p

    def violation(self, kind, payload, no_input=False, finding_key=None):
        """finding_key: a string identifying the class of failing input; matched against
        known_findings.json (status 'known' only)."""
        if finding_key is not None:
            for k in load_known():
                if k.get('property') == self.pid and k.get('status') == 'known' and k.get('key') == finding_key:
                    if finding_key not in self.known_hits:
                        self.known_hits.append(finding_key)
                        print('KNOWN-FINDING: property=%s %s' % (self.pid, k.get('what', finding_key)))
                    return
        p = self.replay(kind, payload, no_input)
        self.violations.append((p, no_input))

    def finish(self):
        wall = time.time() - self.t0
        ev = {'property_id': self.pid, 'tier': self.tier, 'seed': int(self.seed), 'level': self.level,
              'coverage': self.cov, 'assumptions': self.assumptions, 'wall_s': round(wall, 2),
              'violations': len(self.violations)}
        if self.known_hits:
            ev['coverage']['known_findings_hit'] = self.known_hits
        with open(os.path.join(EVID, self.pid + '.json'), 'w') as f:
            json.dump(ev, f, indent=1, default=str)
        for p, noinp in self.violations:
            print('VIOLATION property=%s replay=%s%s' % (self.pid, p, ' no-failing-input-found' if noinp else ''))
        sys.stdout.flush()
        return 1 if self.violations else 0


def print_assumptions(vo_target_v, names):
    """coqc a tiny file that prints the assumptions of the given theorems; returns {name: [axioms]}."""
    mod = os.path.splitext(os.path.basename(vo_target_v))[0]
    src = 'From GS Require Import %s.\n' % mod + ''.join('Print Assumptions %s.\n' % n for n in names)
    r = coq_eval_files([('pa_' + mod, src)], timeout=300)
    rc, out = r['pa_' + mod]
    return rc, out
