"""oracle_poses.py -- direct oracles on the implementation for the pose-level properties
(C09, C10, C11): finite differences and homogeneous-matrix re-implementations.  Their purpose is
to produce concrete replays; they are tests, not proofs."""
import math
from fractions import Fraction
import random

import numpy as np

import corr_poses as cp
from corr_poses import CLS, make_pose

C = {'R2': 2, 'R3': 3, 'SE2': 3, 'SE3': 6}
POINT = {'R2': 'R2', 'R3': 'R3', 'SE2': 'R2', 'SE3': 'R3'}


def safe_vals(rng, k, flavour):
    v = cp.gen_pose_vals(rng, k, flavour)
    if k == 'SE2':
        # keep the oracle away from the wrap so that raw coordinate differences make sense
        a = math.remainder(v[2], 2 * math.pi)
        if abs(abs(a) - math.pi) < 0.05:
            a = 0.9 * a
        v[2] = a
        v[0] = max(-1e4, min(1e4, v[0]))
        v[1] = max(-1e4, min(1e4, v[1]))
    else:
        v = [max(-1e4, min(1e4, x)) for x in v]
    return v


def numjac(f, x, h=1e-6):
    x = np.array(x, dtype=np.float64)
    f0 = np.asarray(f(x), dtype=np.float64)
    J = np.zeros((len(f0), len(x)))
    for j in range(len(x)):
        hj = h * max(1.0, abs(x[j]))
        xp = x.copy(); xp[j] += hj
        xm = x.copy(); xm[j] -= hj
        J[:, j] = (np.asarray(f(xp)) - np.asarray(f(xm))) / (2 * hj)
    return J


def jacobian_cases(k):
    """[(method name, n_args, builder)] builder(selfvals, othervals) -> (analytic J, f, x0)"""
    P = POINT[k]
    c = C[k]

    def mk(a):
        return make_pose(k, list(a))

    def mkp(a):
        return make_pose(P, list(a))
    out = []

    def add(name, okind, fn):
        out.append((name, okind, fn))
    add('jacobian_self_oplus_other_wrt_self', k, lambda s, o: (mk(s).jacobian_self_oplus_other_wrt_self(mk(o)), lambda a: (mk(a) + mk(o)).to_array(), s))
    add('jacobian_self_oplus_other_wrt_self_compact', k, lambda s, o: (mk(s).jacobian_self_oplus_other_wrt_self_compact(mk(o)), lambda a: (mk(a) + mk(o)).to_compact(), s))
    add('jacobian_self_oplus_other_wrt_other', k, lambda s, o: (mk(s).jacobian_self_oplus_other_wrt_other(mk(o)), lambda b: (mk(s) + mk(b)).to_array(), o))
    add('jacobian_self_oplus_other_wrt_other_compact', k, lambda s, o: (mk(s).jacobian_self_oplus_other_wrt_other_compact(mk(o)), lambda b: (mk(s) + mk(b)).to_compact(), o))
    add('jacobian_self_ominus_other_wrt_self', k, lambda s, o: (mk(s).jacobian_self_ominus_other_wrt_self(mk(o)), lambda a: (mk(a) - mk(o)).to_array(), s))
    add('jacobian_self_ominus_other_wrt_self_compact', k, lambda s, o: (mk(s).jacobian_self_ominus_other_wrt_self_compact(mk(o)), lambda a: (mk(a) - mk(o)).to_compact(), s))
    add('jacobian_self_ominus_other_wrt_other', k, lambda s, o: (mk(s).jacobian_self_ominus_other_wrt_other(mk(o)), lambda b: (mk(s) - mk(b)).to_array(), o))
    add('jacobian_self_ominus_other_wrt_other_compact', k, lambda s, o: (mk(s).jacobian_self_ominus_other_wrt_other_compact(mk(o)), lambda b: (mk(s) - mk(b)).to_compact(), o))
    add('jacobian_boxplus', None, lambda s, o: (mk(s).jacobian_boxplus(), lambda d: (mk(s) + np.array(d)).to_array(), [0.0] * c))
    add('jacobian_self_oplus_point_wrt_self', P, lambda s, o: (mk(s).jacobian_self_oplus_point_wrt_self(mkp(o)), lambda a: (mk(a) + mkp(o)).to_array(), s))
    add('jacobian_self_oplus_point_wrt_point', P, lambda s, o: (mk(s).jacobian_self_oplus_point_wrt_point(mkp(o)), lambda b: (mk(s) + mkp(b)).to_array(), o))
    add('jacobian_inverse', None, lambda s, o: (mk(s).jacobian_inverse(), lambda a: mk(a).inverse.to_array(), s))
    return out


def check_jacobians(seed, n_per, kinds=('R2', 'R3', 'SE2', 'SE3')):
    """-> (evaluations, failures[list of dict])"""
    rng = random.Random(seed)
    fails = []
    evals = 0
    for k in kinds:
        for (name, okind, fn) in jacobian_cases(k):
            for i in range(n_per):
                fl = 'typical' if rng.random() < 0.6 else 'adversarial'
                s = safe_vals(rng, k, fl)
                o = safe_vals(rng, okind, fl) if okind else []
                try:
                    J, f, x0 = fn(s, o)
                    if k == 'SE2':
                        f0 = np.asarray(f(np.array(x0, dtype=np.float64)))
                        if len(f0) == 3 and abs(abs(f0[2]) - math.pi) < 0.05:
                            continue   # the resulting angle is at the wrap: excluded by the property
                    Jn = numjac(f, x0)
                    evals += 1
                    J = np.asarray(J, dtype=np.float64)
                    if isinstance(J, np.ndarray) and J.flags.writeable and J.size:
                        Jc = J.copy()
                        try:
                            J *= 0.5          # a caller scaling the returned matrix in place ...
                            J2, _, _ = fn(s, o)   # ... must not change what the next call returns
                            J2 = np.asarray(J2, dtype=np.float64)
                            if J2.shape == Jc.shape and not np.array_equal(J2, Jc):
                                fails.append({'class': k, 'method': name, 'self': s, 'other': o,
                                              'why': 'the returned Jacobian is shared state: after an in-place edit of the result the next call returns a different matrix',
                                              'first': Jc.tolist(), 'second': J2.tolist()})
                                J = Jc
                                continue
                        finally:
                            pass
                        J = Jc
                    if J.shape != Jn.shape:
                        fails.append({'class': k, 'method': name, 'self': s, 'other': o, 'why': 'shape %s vs derivative shape %s' % (J.shape, Jn.shape)})
                        continue
                    scale = 1.0 + np.abs(Jn).max() + np.abs(J).max()
                    err = np.abs(J - Jn).max()
                    if not err <= 2e-5 * scale:
                        fails.append({'class': k, 'method': name, 'self': s, 'other': o, 'why': 'max |J - numeric| = %g (scale %g)' % (err, scale),
                                      'analytic': J.tolist(), 'numeric': Jn.tolist()})
                except Exception as ex:  # noqa
                    fails.append({'class': k, 'method': name, 'self': s, 'other': o, 'why': 'raised %r' % (ex,)})
    # (a) the difference p1 (-) p2 depends on the positions through t1 - t2 only: its Jacobians are the same matrices when both poses are moved by a
    #     common translation, e.g. to UTM / ECEF coordinates where the two poses are a few metres apart;
    # (b) an operand given as a raw ndarray of integer dtype means the same numbers as the float array
    for k in kinds:
        for name in ['jacobian_self_ominus_other_wrt_self', 'jacobian_self_ominus_other_wrt_self_compact',
                     'jacobian_self_ominus_other_wrt_other', 'jacobian_self_ominus_other_wrt_other_compact']:
            for i in range(max(1, n_per // 10)):
                s1, s2 = safe_vals(rng, k, 'typical'), safe_vals(rng, k, 'typical')
                nt = len(np.asarray(make_pose(POINT[k], safe_vals(rng, POINT[k], 'typical'))))
                for j in range(nt):
                    s1[j], s2[j] = rng.gauss(0, 3), rng.gauss(0, 3)
                c_ = [rng.choice([5e5, 4.1e6, -6.3e6]) + rng.uniform(-100, 100) for _ in range(nt)]
                try:
                    J0 = np.asarray(getattr(make_pose(k, s1), name)(make_pose(k, s2)), dtype=np.float64)
                    f1 = [s1[j] + c_[j] for j in range(nt)] + list(s1[nt:])
                    f2 = [s2[j] + c_[j] for j in range(nt)] + list(s2[nt:])
                    J1 = np.asarray(getattr(make_pose(k, f1), name)(make_pose(k, f2)), dtype=np.float64)
                    evals += 1
                    if J0.shape != J1.shape or not np.allclose(J0, J1, rtol=0, atol=1e-6 * (1 + float(np.abs(J0).max()))):
                        fails.append({'class': k, 'method': name, 'self': f1, 'other': f2,
                                      'why': 'the Jacobian of self (-) other changes by %g when both poses are moved by the common translation %s'
                                             % (float(np.abs(J0 - J1).max()) if J0.shape == J1.shape else -1.0, c_), 'near_origin': J0.tolist(), 'far': J1.tolist()})
                except Exception as ex:  # noqa
                    fails.append({'class': k, 'method': name, 'self': s1, 'other': s2, 'why': 'raised %r' % (ex,)})
        for name in ['jacobian_self_oplus_other_wrt_self', 'jacobian_self_oplus_other_wrt_self_compact', 'jacobian_self_oplus_other_wrt_other',
                     'jacobian_self_oplus_other_wrt_other_compact', 'jacobian_self_oplus_point_wrt_self', 'jacobian_self_oplus_point_wrt_point']:
            for i in range(max(1, n_per // 15)):
                s1 = safe_vals(rng, k, 'typical')
                n_o = len(np.asarray(make_pose(POINT[k] if 'point' in name else k, safe_vals(rng, POINT[k] if 'point' in name else k, 'typical'))))
                if k == 'SE3' and 'point' not in name:
                    continue        # an integer quaternion other than the identity is not a pose
                iv = np.array([rng.randint(-4, 4) for _ in range(n_o)])
                if k == 'SE2' and 'point' not in name:
                    iv[2] = rng.choice([0, 1, -2])
                try:
                    Ji = np.asarray(getattr(make_pose(k, s1), name)(iv), dtype=np.float64)
                    Jf = np.asarray(getattr(make_pose(k, s1), name)(iv.astype(np.float64)), dtype=np.float64)
                    evals += 1
                    if Ji.shape != Jf.shape or not np.allclose(Ji, Jf, rtol=0, atol=1e-12 * (1 + float(np.abs(Jf).max()))):
                        fails.append({'class': k, 'method': name, 'self': s1, 'other': iv.tolist(),
                                      'why': 'the Jacobian differs when the operand is given as an ndarray of dtype %s instead of float64 (same numbers)' % iv.dtype,
                                      'with_int': Ji.tolist(), 'with_float': Jf.tolist()})
                except Exception as ex:  # noqa
                    pass            # a raw array operand is not accepted by every Jacobian method: only value differences are judged
    # the Jacobians are functions of the CURRENT numbers of the pose, not of the object's history: call, overwrite the pose array in
    # place (poses are ndarray subclasses), call again -> must equal the same call on a fresh pose holding the same numbers
    METHS = ['jacobian_self_oplus_other_wrt_self', 'jacobian_self_oplus_other_wrt_self_compact', 'jacobian_self_oplus_other_wrt_other',
             'jacobian_self_oplus_other_wrt_other_compact', 'jacobian_self_ominus_other_wrt_self', 'jacobian_self_ominus_other_wrt_self_compact',
             'jacobian_self_ominus_other_wrt_other', 'jacobian_self_ominus_other_wrt_other_compact', 'jacobian_boxplus',
             'jacobian_self_oplus_point_wrt_self', 'jacobian_self_oplus_point_wrt_point', 'jacobian_inverse']
    for k in kinds:
        for name in METHS:
            for i in range(max(1, n_per // 10)):
                s1, s2 = safe_vals(rng, k, 'typical'), safe_vals(rng, k, 'typical')
                if k == 'SE2':
                    s2 = list(s2[:2]) + [rng.uniform(-3, 3)]
                elif k == 'SE3':
                    nq = math.sqrt(sum(x * x for x in s2[3:])) or 1.0
                    s2 = list(s2[:3]) + [x / nq for x in s2[3:]]
                args = []
                if 'point' in name:
                    args = [make_pose(POINT[k], safe_vals(rng, POINT[k], 'typical'))]
                elif 'other' in name:
                    args = [make_pose(k, safe_vals(rng, k, 'typical'))]
                try:
                    p = make_pose(k, list(s1))
                    getattr(p, name)(*args)
                    np.ndarray.__setitem__(p, slice(None), np.array(s2, dtype=np.float64))
                    J2 = np.asarray(getattr(p, name)(*args), dtype=np.float64)
                    fresh = make_pose(k, [float(x) for x in np.asarray(p)])
                    Jf = np.asarray(getattr(fresh, name)(*args), dtype=np.float64)
                    evals += 1
                    if J2.shape != Jf.shape or not np.allclose(J2, Jf, rtol=0, atol=1e-12 * (1 + np.abs(Jf).max())):
                        fails.append({'class': k, 'method': name, 'self': [float(x) for x in np.asarray(p)], 'other': [float(x) for a in args for x in np.asarray(a)],
                                      'why': 'the Jacobian depends on the HISTORY of the pose object: after %s() the pose array was overwritten in place '
                                             '(first values %s) and the next call differs from the same call on a fresh pose with the same numbers' % (name, s1),
                                      'stale': J2.tolist(), 'fresh': Jf.tolist(), 'history': {'first_values': list(s1)}})
                except Exception as ex:  # noqa
                    fails.append({'class': k, 'method': name, 'self': s1, 'other': [], 'why': 'raised %r' % (ex,)})
    return evals, fails


def replay_jacobian(p):
    for (name, okind, fn) in jacobian_cases(p['class']):
        if name == p['method']:
            J, f, x0 = fn(p['self'], p['other'])
            Jn = numjac(f, x0)
            err = float(np.abs(np.asarray(J) - Jn).max())
            print('%s.%s self=%s other=%s\nanalytic=\n%s\nnumeric=\n%s\nmax abs difference %g' % (p['class'], name, p['self'], p['other'], np.asarray(J), Jn, err))
            return err


# ------------------------------------------------------------------------------------------------
# C09: group laws against numpy homogeneous matrices (independent re-implementation)
def hom(k, v):
    v = np.asarray(v, dtype=np.float64)
    if k == 'R2':
        M = np.eye(3); M[:2, 2] = v; return M
    if k == 'R3':
        M = np.eye(4); M[:3, 3] = v; return M
    if k == 'SE2':
        c, s = math.cos(v[2]), math.sin(v[2])
        return np.array([[c, -s, v[0]], [s, c, v[1]], [0, 0, 1.0]])
    x, y, z, w = v[3:]
    n = x * x + y * y + z * z + w * w
    R = np.array([[w*w + x*x - y*y - z*z, 2*(x*y - z*w), 2*(x*z + y*w)],
                  [2*(x*y + z*w), w*w - x*x + y*y - z*z, 2*(y*z - x*w)],
                  [2*(x*z - y*w), 2*(y*z + x*w), w*w - x*x - y*y + z*z]]) / n
    M = np.eye(4); M[:3, :3] = R; M[:3, 3] = v[:3]
    return M


def group_laws(seed, n_per, kinds=('R2', 'R3', 'SE2', 'SE3')):
    rng = random.Random(seed)
    fails, evals = [], 0

    def chk(k, law, ok, data):
        nonlocal evals
        evals += 1
        if not ok:
            fails.append(dict(data, **{'class': k, 'law': law}))
    for k in kinds:
        for i in range(n_per):
            fl = 'typical' if rng.random() < 0.6 else 'adversarial'
            a, b, c = (safe_vals(rng, k, fl) for _ in range(3))
            if k == 'SE3':   # the group laws are stated for unit quaternions
                for v in (a, b, c):
                    nn = math.sqrt(sum(x * x for x in v[3:]))
                    v[3:] = [x / nn for x in v[3:]]
                # unit quaternions with EXACT structure: components that cancel exactly (qx + qy + qz == 0.0), exact zeros, scalar part exactly 0 or
                # negative, axis-aligned quarter and half turns -- in every permutation and sign pattern
                for v in (a, b):
                    if rng.random() < 0.2:
                        x6 = 1.0 / math.sqrt(6.0)
                        q = list(rng.choice([[0.5, -0.5, 0.0, math.sqrt(0.5)], [math.sqrt(0.5), -math.sqrt(0.5), 0.0, 0.0], [x6, x6, -2 * x6, 0.0],
                                             [0.25, 0.25, -0.5, math.sqrt(0.625)], [0.0, 0.0, 0.0, 1.0], [0.0, 0.0, 0.0, -1.0], [1.0, 0.0, 0.0, 0.0],
                                             [0.0, math.sqrt(0.5), 0.0, math.sqrt(0.5)], [0.5, 0.5, 0.5, 0.5], [0.5, -0.5, 0.5, -0.5], [0.6, 0.0, -0.8, 0.0],
                                             [0.36, -0.48, 0.12, math.sqrt(1 - 0.36 ** 2 - 0.48 ** 2 - 0.12 ** 2)]]))
                        vec = q[:3]
                        rng.shuffle(vec)
                        sg = rng.choice([1.0, -1.0])
                        v[3:] = [sg * x for x in vec] + [q[3] * rng.choice([1.0, -1.0])]
            if k == 'SE2' and rng.random() < 0.2:
                # headings whose SUM (a (+) b) or DIFFERENCE (a (-) c) lands a hair inside the branch cut (1e-4 .. 1e-7 rad from +-pi): the laws are
                # compared as matrices, which are continuous there
                sg = rng.choice([-1.0, 1.0])
                eps_ = 10.0 ** rng.uniform(-7, -4)
                b[2] = sg * (math.pi - eps_) - a[2]
                c[2] = a[2] - sg * (math.pi - eps_)
            A, B, Cc = make_pose(k, a), make_pose(k, b), make_pose(k, c)
            data = {'a': a, 'b': b, 'c': c}
            sc = 1.0 + max(abs(x) for x in a + b + c) ** 2
            tol = 1e-9 * sc
            try:
                chk(k, 'mat_oplus', np.allclose(hom(k, (A + B).to_array()), hom(k, A.to_array()) @ hom(k, B.to_array()), rtol=0, atol=tol), data)
                chk(k, 'ominus_def', np.allclose(hom(k, (A - B).to_array()), hom(k, (B.inverse + A).to_array()), rtol=0, atol=tol), data)
                chk(k, 'mat_ominus', np.allclose(hom(k, (A - Cc).to_array()), np.linalg.inv(hom(k, Cc.to_array())) @ hom(k, A.to_array()), rtol=0, atol=tol * sc), data)
                I = type(A).identity()
                chk(k, 'inverse_right', np.allclose(hom(k, (A + A.inverse).to_array()), hom(k, I.to_array()), rtol=0, atol=tol), data)
                chk(k, 'inverse_left', np.allclose(hom(k, (A.inverse + A).to_array()), hom(k, I.to_array()), rtol=0, atol=tol), data)
                chk(k, 'identity', np.allclose((A + I).to_array(), A.to_array(), rtol=0, atol=1e-12 * sc) and np.allclose((I + A).to_array(), A.to_array(), rtol=0, atol=1e-12 * sc), data)
                chk(k, 'assoc', np.allclose(hom(k, ((A + B) + Cc).to_array()), hom(k, (A + (B + Cc)).to_array()), rtol=0, atol=tol * sc), data)
                if k in ('SE2', 'SE3'):
                    pk = POINT[k]
                    x = safe_vals(rng, pk, fl)
                    X = make_pose(pk, x)
                    hx = np.array(list(x) + [1.0])
                    chk(k, 'point_action', np.allclose((A + X).to_array(), (hom(k, A.to_array()) @ hx)[:-1], rtol=0, atol=tol), dict(data, x=x))
                    chk(k, 'to_matrix', np.allclose(A.to_matrix(), hom(k, A.to_array()), rtol=0, atol=1e-12), data)
                    if hasattr(type(A), 'from_matrix'):
                        # a pose constructed from a homogeneous matrix IS that transform (a matrix written here, and a product of two matrices)
                        Ma, Mb = hom(k, A.to_array()), hom(k, B.to_array())
                        chk(k, 'from_matrix', np.allclose(hom(k, type(A).from_matrix(Ma).to_array()), Ma, rtol=0, atol=1e-12 * sc), data)
                        chk(k, 'from_matrix_of_product', np.allclose(hom(k, type(A).from_matrix(Ma @ Mb).to_array()), Ma @ Mb, rtol=0, atol=tol), data)
                # boxplus (typical increments, and for SE(3) rotational parts of norm exactly 1 / next to 1 / above 1)
                d = cp.gen_arr(rng, C[k], 'typical')
                if k == 'SE3' and rng.random() < 0.5:
                    ax = [0.0, 0.0, 0.0]
                    ax[rng.randrange(3)] = rng.choice([1.0, -1.0])
                    if rng.random() < 0.3:
                        ax = [0.6 * rng.choice([1, -1]), 0.8 * rng.choice([1, -1]), 0.0]
                    mag = rng.choice([1.0, 1.0, math.nextafter(1.0, 0.0), 0.999999, 1.5])
                    d = list(d[:3]) + [x * mag for x in ax]
                if k == 'SE3':
                    rn = sum(x * x for x in d[3:])
                    if rn <= 1:
                        other = PoseSE3(d[:3], list(d[3:]) + [math.sqrt(1 - rn)])
                    else:
                        other = PoseSE3(d[:3], [0, 0, 0, 1.0])
                elif k == 'SE2':
                    other = PoseSE2(d[:2], d[2])
                else:
                    other = make_pose(k, d)
                got = (A + np.array(d)).to_array()
                okb = np.allclose(got, (A + other).to_array(), rtol=0, atol=1e-12 * sc)
                if not okb and k == 'SE3' and abs(rn - 1.0) < 1e-12 and sum(Fraction(float(x)) ** 2 for x in d[3:]) != 1:
                    # |d_rot| = 1 to within rounding BUT NOT EXACTLY (an exactly unit increment such as (1,0,0) has an exact norm in any
                    # summation order and must take the documented inner branch): whether the code's `norm > 1.0` test fires is decided by the last bit of
                    # np.linalg.norm; both branches are the documented behaviour of one side of the boundary
                    # (and on the inner side w = sqrt(1 - |d|^2) amplifies a last-bit difference in |d|^2 to ~1e-8)
                    okb = any(np.allclose(got, (A + alt).to_array(), rtol=0, atol=1e-6 * sc)
                              for alt in (PoseSE3(d[:3], [0, 0, 0, 1.0]), PoseSE3(d[:3], list(d[3:]) + [0.0])))
                chk(k, 'boxplus_def', okb, dict(data, d=d))
            except Exception as ex:  # noqa
                chk(k, 'raised %r' % (ex,), False, data)
        # operations are functions of the CURRENT numbers of their operands: use a pose as the left operand, overwrite its array in place,
        # use it again -> same as a fresh pose holding the same numbers (no per-object cache of a rotation matrix / of trigonometric values)
        try:
            for _ in range(max(2, n_per // 10)):
                s1, s2, so = safe_vals(rng, k, 'typical'), safe_vals(rng, k, 'typical'), safe_vals(rng, k, 'typical')
                if k == 'SE2':
                    s2 = list(s2[:2]) + [rng.uniform(-3, 3)]
                elif k == 'SE3':
                    nq = math.sqrt(sum(x * x for x in s2[3:])) or 1.0
                    s2 = list(s2[:3]) + [x / nq for x in s2[3:]]
                O = make_pose(k, so)
                pt = make_pose(POINT[k], safe_vals(rng, POINT[k], 'typical'))
                darr = np.array(cp.gen_arr(rng, C[k], 'typical'))
                ops = {'oplus': lambda q: (q + O).to_array(), 'oplus_point': lambda q: (q + pt).to_array(), 'boxplus': lambda q: (q + darr).to_array(),
                       'ominus': lambda q: (q - O).to_array(), 'ominus_rev': lambda q: (O - q).to_array(), 'inverse': lambda q: q.inverse.to_array(),
                       }
                if hasattr(make_pose(k, list(s1)), 'to_matrix'):
                    ops['to_matrix'] = lambda q: np.asarray(q.to_matrix()).reshape(-1)
                via_normalize = k == 'SE3' and rng.random() < 0.5
                if via_normalize:
                    # ... or the object is changed by its own in-place method: a quaternion read with a few decimals (or not normalised at all),
                    # used, then normalize()d, then used again
                    f_ = rng.choice([1.0 + 3e-5, 1.0 - 4e-7, 2.0, 0.5])
                    s1 = list(s1[:3]) + [x * f_ for x in s2[3:]]
                P = make_pose(k, list(s1))
                for f in ops.values():
                    f(P)
                if via_normalize:
                    P.normalize()
                else:
                    np.ndarray.__setitem__(P, slice(None), np.array(s2, dtype=np.float64))
                fresh = make_pose(k, [float(x) for x in np.asarray(P)])
                for nm, f in ops.items():
                    a_, b_ = np.asarray(f(P), dtype=np.float64), np.asarray(f(fresh), dtype=np.float64)
                    chk(k, 'no_object_history_' + nm, a_.shape == b_.shape and np.allclose(a_, b_, rtol=0, atol=1e-12 * (1 + float(np.abs(b_).max()))),
                        {'a': [float(x) for x in np.asarray(P)], 'b': so, 'first_values_of_the_same_object': list(s1), 'stale': a_.tolist(), 'fresh': b_.tolist()})
            # a point / pose given as a plain float ndarray means the same as the PoseR2 / PoseR3 / pose object holding those numbers
            A = make_pose(k, safe_vals(rng, k, 'typical'))
            ptp = make_pose(POINT[k], safe_vals(rng, POINT[k], 'typical'))
            r_obj = np.asarray(A + ptp, dtype=np.float64)
            raw = np.array(np.asarray(ptp), dtype=np.float64)          # e.g. a row of a point cloud
            raw0 = raw.copy()
            res1 = A + raw
            r_arr = np.asarray(res1, dtype=np.float64).copy()
            res2 = np.asarray(A + raw, dtype=np.float64)
            if POINT[k] != k:
                chk(k, 'raw_array_point_operand_kept', raw.tobytes() == raw0.tobytes() and not np.shares_memory(np.asarray(res1), raw)
                    and res2.shape == r_arr.shape and np.array_equal(res2, r_arr),
                    {'a': [float(x) for x in np.asarray(A)], 'point': raw0.tolist(), 'point_after_the_call': raw.tolist(), 'first_result': r_arr.tolist(),
                     'second_result_with_the_same_array': res2.tolist(), 'sequence': 'x = np.array(point); r1 = a + x; r2 = a + x'})
            if POINT[k] != k:
                chk(k, 'raw_array_point', r_obj.shape == r_arr.shape and np.allclose(r_obj, r_arr, rtol=0, atol=1e-12 * (1 + float(np.abs(r_obj).max()))),
                    {'a': [float(x) for x in np.asarray(A)], 'point': [float(x) for x in np.asarray(ptp)], 'with_object': r_obj.tolist(), 'with_raw_array': r_arr.tolist()})
            # raw ndarray right operands of integer dtype (a point (3, -2), an increment (1, 2, 0), np.zeros(n, dtype=int)) mean the same numbers
            A = make_pose(k, safe_vals(rng, k, 'typical'))
            ip = np.array([rng.randint(-4, 4) for _ in range(len(np.asarray(make_pose(POINT[k], safe_vals(rng, POINT[k], 'typical')))))])
            ii = np.array([rng.randint(-1, 1) for _ in range(C[k])])
            if k == 'SE3':
                ii[3:] = 0
            for nm, iv in (('integer_point', ip), ('integer_increment', ii), ('integer_zero_increment', np.zeros(C[k], dtype=int))):
                if len(iv) == len(ip) and nm != 'integer_point' and C[k] == len(ip):
                    pass
                r_int = np.asarray(A + iv, dtype=np.float64)
                r_flt = np.asarray(A + iv.astype(np.float64), dtype=np.float64)
                chk(k, nm, r_int.shape == r_flt.shape and np.allclose(r_int, r_flt, rtol=0, atol=1e-12 * (1 + float(np.abs(r_flt).max()))),
                    {'a': [float(x) for x in np.asarray(A)], 'right_operand': iv.tolist(), 'dtype': str(iv.dtype), 'with_int': r_int.tolist(), 'with_float': r_flt.tolist()})
        except Exception as ex:  # noqa
            chk(k, 'raised %r' % (ex,), False, {'sequence': 'object history / integer operands'})
        # the identity element is a VALUE: accumulating onto a pose obtained from identity() (dead reckoning: acc = identity(); acc += step)
        # must not change what identity() returns afterwards, nor an earlier copy of it
        try:
            cls = CLS[k]
            ident0 = np.asarray(cls.identity()).copy()
            acc = cls.identity()
            for _ in range(3):
                acc += make_pose(k, safe_vals(rng, k, 'typical'))
            ident1 = np.asarray(cls.identity())
            chk(k, 'identity_is_a_value', np.array_equal(ident0, ident1) and np.allclose(hom(k, ident1), np.eye(len(hom(k, ident1)))),
                {'a': ident0.tolist(), 'after_accumulating_onto_identity': ident1.tolist(), 'sequence': 'acc = identity(); acc += step (x3); identity()'})
            A = make_pose(k, safe_vals(rng, k, 'typical'))
            chk(k, 'identity_right_after_accumulation', np.allclose((A + cls.identity()).to_array(), A.to_array(), rtol=0, atol=1e-9 * (1 + np.abs(np.asarray(A)).max())),
                {'a': [float(x) for x in np.asarray(A)], 'identity_now': ident1.tolist()})
        except Exception as ex:  # noqa
            chk(k, 'raised %r' % (ex,), False, {'sequence': 'identity accumulation'})
    return evals, fails


from graphslam.pose.se2 import PoseSE2  # noqa: E402
from graphslam.pose.se3 import PoseSE3  # noqa: E402


# ------------------------------------------------------------------------------------------------
# C11: manifold invariants on the implementation (float drift is a soak TEST, not a theorem)
def manifold_invariants(seed, n, chain_len=None):
    import numpy as np
    from graphslam.graph import Graph
    from graphslam.vertex import Vertex
    from graphslam.edge.edge_odometry import EdgeOdometry
    rng = random.Random(seed)
    fails, evals = [], 0
    chain_len = chain_len or (200 if n <= 50 else 10000)

    def bad(what, data):
        fails.append(dict(data, law=what, **{'class': data.get('class', 'SE2')}))
    # SE(2) angles
    for i in range(n * 5):
        evals += 1
        c = rng.choice(['big', 'oddpi', 'nearpi', 'uniform'])
        if c == 'big':
            th = rng.uniform(-1e6, 1e6)
        elif c == 'nearpi':          # close to the branch cut, not on it
            th = (2 * rng.randint(-3, 3) + 1) * math.pi + rng.choice([-1, 1]) * 10.0 ** rng.uniform(-8, -4)
        elif c == 'oddpi':
            m = (2 * rng.randint(-50, 50) + 1) * math.pi
            th = rng.choice([m, math.nextafter(m, 1e9), math.nextafter(m, -1e9), m + rng.uniform(-1e-9, 1e-9)])
        else:
            th = rng.uniform(-7, 7)
        th2 = rng.uniform(-1e3, 1e3)
        A = PoseSE2([rng.gauss(0, 5), rng.gauss(0, 5)], th)
        B = PoseSE2([rng.gauss(0, 5), rng.gauss(0, 5)], th2)
        from graphslam.vertex import Vertex as _Vx
        Vg = _Vx.from_g2o('VERTEX_SE2 7 1.5 -2.0 %r' % th)            # a pose read from a file goes through the same normalisation
        for nm, P, exact in (('new', A, th), ('oplus', A + B, th + th2), ('ominus', A - B, th - th2), ('inverse', A.inverse, -th),
                             ('boxplus', A + np.array([0.1, 0.2, th2]), th + th2), ('copy', A.copy(), th), ('Vertex.from_g2o', Vg.pose, th)):
            ang = float(P[2])
            if not (-math.pi <= ang <= math.pi):
                bad('SE2 angle out of [-pi,pi] after ' + nm, {'class': 'SE2', 'theta': th, 'theta2': th2, 'angle': ang})
            # the float period 2*pi_f differs from 2*pi by 2.4e-16 relative: after |angle| / 2pi turns that is 2.5e-16 * |angle| -- nothing else may add up
            if abs(math.sin((ang - exact) / 2.0)) > 1e-9 + 2e-15 * (abs(th) + abs(th2)):
                bad('SE2 angle not congruent to the exact angle after ' + nm, {'class': 'SE2', 'theta': th, 'theta2': th2, 'angle': ang, 'exact': exact})
    # SE(2) poses constructed from a homogeneous matrix: hand-written quarter / half turns (with either sign of zero), matrices of angles next to the
    # branch cut, and PRODUCTS of two matrices whose angles add up to +-pi (rounding noise of either sign in the off-diagonal entries)
    if hasattr(PoseSE2, 'from_matrix'):
        mats = []
        for z1 in (0.0, -0.0):
            for z2 in (0.0, -0.0):
                mats.append((np.array([[-1.0, z1, 3.0], [z2, -1.0, -4.0], [0.0, 0.0, 1.0]]), math.pi))
                mats.append((np.array([[z1, -1.0, 0.5], [1.0, z2, 2.0], [0.0, 0.0, 1.0]]), math.pi / 2))
                mats.append((np.array([[z1, 1.0, 0.5], [-1.0, z2, 2.0], [0.0, 0.0, 1.0]]), -math.pi / 2))
                mats.append((np.array([[1.0, z1, 0.5], [z2, 1.0, 2.0], [0.0, 0.0, 1.0]]), 0.0))
        for i in range(n * 5):
            c = rng.choice(['nearpi', 'uniform', 'product_pi', 'product_pi', 'product'])
            if c == 'nearpi':
                th = rng.choice([-1, 1]) * (math.pi - 10.0 ** rng.uniform(-12, -4))
                mats.append((hom('SE2', [rng.gauss(0, 5), rng.gauss(0, 5), th]), th))
            elif c == 'uniform':
                th = rng.uniform(-math.pi, math.pi)
                mats.append((hom('SE2', [rng.gauss(0, 5), rng.gauss(0, 5), th]), th))
            else:
                t1 = rng.uniform(-math.pi, math.pi)
                t2 = (rng.choice([-1, 1]) * math.pi - t1) if c == 'product_pi' else rng.uniform(-math.pi, math.pi)
                M1 = PoseSE2([rng.gauss(0, 5), rng.gauss(0, 5)], t1).to_matrix() if rng.random() < 0.5 else hom('SE2', [rng.gauss(0, 5), rng.gauss(0, 5), t1])
                M2 = PoseSE2([rng.gauss(0, 5), rng.gauss(0, 5)], t2).to_matrix() if rng.random() < 0.5 else hom('SE2', [rng.gauss(0, 5), rng.gauss(0, 5), t2])
                mats.append((np.asarray(M1) @ np.asarray(M2), t1 + t2))
        for M, exact in mats:
            evals += 1
            try:
                P = PoseSE2.from_matrix(M)
            except Exception as ex:  # noqa
                bad('PoseSE2.from_matrix raised %r' % (ex,), {'class': 'SE2', 'matrix': M.tolist()})
                continue
            ang = float(P[2])
            if not (-math.pi <= ang <= math.pi):
                bad('SE2 angle out of [-pi,pi] after from_matrix', {'class': 'SE2', 'matrix': M.tolist(), 'angle': ang})
            elif abs(math.sin((ang - exact) / 2.0)) > 1e-9 or not np.allclose(np.asarray(P)[:2], M[:2, 2], rtol=0, atol=0):
                bad('SE2 pose from_matrix: angle not congruent to the angle of the matrix (or translation changed)',
                    {'class': 'SE2', 'matrix': M.tolist(), 'angle': ang, 'exact': exact, 'pose': [float(x) for x in P]})
    # SE(3) chains
    for i in range(max(1, n // 10)):
        evals += 1
        P = make_pose('SE3', cp.gen_pose_vals(rng, 'SE3', 'typical'))
        for j in range(chain_len):
            q = cp.gen_quat(rng, 'typical' if rng.random() < 0.7 else 'adversarial')
            nq = math.sqrt(sum(x * x for x in q)); q = [x / nq for x in q]
            O = PoseSE3([rng.gauss(0, 1) for _ in range(3)], q)
            c = rng.randrange(6)
            if c == 0: P = P + O
            elif c == 1: P = O + P
            elif c == 2: P = P - O
            elif c == 3: P = O - P
            elif c == 4: P = P.inverse
            else: P = P + np.array(cp.gen_arr(rng, 6, 'typical'))
            P = PoseSE3([0, 0, 0], P[3:])   # keep translations bounded; quaternion untouched
        nn = float(np.linalg.norm(P[3:]))
        if not abs(nn - 1.0) <= 1e-9:
            bad('SE3 quaternion norm drifted to %r after %d operations' % (nn, chain_len), {'class': 'SE3', 'seed': seed, 'chain': i})
    # optimizer runs keep unit quaternions
    for i in range(max(1, n // 20)):
        evals += 1
        nv = rng.randint(3, 6)
        truth = [make_pose('SE3', [j * 1.0, 0.1 * j, 0] + cp.gen_quat(rng, 'typical')) for j in range(nv)]
        vs = [Vertex(j, make_pose('SE3', [float(x) + rng.gauss(0, .05) for x in np.asarray(truth[j])[:3]] + [float(x) for x in np.asarray(truth[j])[3:]])) for j in range(nv)]
        es = []
        for j in range(nv - 1):
            z = truth[j + 1] - truth[j]
            es.append(EdgeOdometry([j, j + 1], np.eye(6), z))
        z = truth[nv - 1] - truth[0]
        es.append(EdgeOdometry([0, nv - 1], np.eye(6), z))
        g = Graph(es, vs)
        iters = rng.randint(1, 50 if n > 50 else 8)
        try:
            g.optimize(tol=0.0, max_iter=iters, verbose=False)
        except Exception as ex:  # noqa
            bad('optimize raised %r' % (ex,), {'class': 'SE3', 'seed': seed, 'graph': i}); continue
        for v in vs:
            nn = float(np.linalg.norm(v.pose[3:]))
            if not abs(nn - 1.0) <= 1e-9:
                bad('vertex quaternion norm %r after %d iterations' % (nn, iters), {'class': 'SE3', 'seed': seed, 'graph': i})
                break
    # exact half-turns (scalar part exactly 0.0) and their products: every operation keeps a unit quaternion and the right rotation
    half = [[1.0, 0.0, 0.0, 0.0], [0.0, 1.0, 0.0, 0.0], [0.0, 0.0, 1.0, 0.0], [0.6, 0.8, 0.0, 0.0], [0.0, -0.6, 0.8, 0.0]]
    s2_ = math.sqrt(0.5)
    quarter = PoseSE3([0.0, 0.0, 0.0], [0.0, 0.0, s2_, s2_])
    poses_h = [PoseSE3([rng.gauss(0, 2) for _ in range(3)], q) for q in half] + [quarter + quarter]
    for P in poses_h:
        O = PoseSE3([rng.gauss(0, 1) for _ in range(3)], half[rng.randrange(len(half))])
        for nm, Rr in (('inverse', P.inverse), ('oplus', P + O), ('ominus', P - O), ('ominus_rev', O - P), ('inverse_of_product', (P + O).inverse)):
            evals += 1
            nn = float(np.linalg.norm(np.asarray(Rr)[3:]))
            if not abs(nn - 1.0) <= 1e-12:
                bad('SE3 quaternion norm %r after %s of an exact half-turn (scalar part exactly 0)' % (nn, nm),
                    {'class': 'SE3', 'pose': [float(x) for x in P], 'other': [float(x) for x in O], 'result': [float(x) for x in Rr]})
        Mi = hom('SE3', P.inverse.to_array()) if abs(float(np.linalg.norm(np.asarray(P.inverse)[3:])) - 1) < 1e-6 else None
        if Mi is not None and not np.allclose(Mi @ hom('SE3', P.to_array()), np.eye(4), atol=1e-9):
            bad('inverse of an exact half-turn is not the inverse transform', {'class': 'SE3', 'pose': [float(x) for x in P]})
    # exactly-unit rotation increments (|d| = 1.0 as computed by np.linalg.norm, whatever the plain sum of squares rounds to)
    units = [[s2_, s2_, 0.0], [1 / math.sqrt(3)] * 3, [3 / 13, 4 / 13, 12 / 13], [1.0, 0.0, 0.0], [0.6, 0.8, 0.0]]
    for i in range(n):
        v = np.array([rng.gauss(0, 1) for _ in range(3)])
        units.append([float(x) for x in v / np.linalg.norm(v)])
    P0 = PoseSE3([0.5, -1.0, 2.0], [0.1, -0.2, 0.3, math.sqrt(1 - 0.14)])
    for d in units:
        evals += 1
        Rr = P0 + np.array([0.1, 0.2, 0.3] + list(d))
        vtx = Vertex(0, P0.copy())
        vtx.pose += np.array([0.0, 0.0, 0.0] + list(d))
        for nm, X in (('boxplus', Rr), ('+= on a vertex pose', vtx.pose)):
            q = np.asarray(X)[3:]
            if not np.all(np.isfinite(np.asarray(X))) or abs(float(np.linalg.norm(q)) - 1.0) > 1e-7:
                bad('%s with an exactly-unit rotation increment gives a non-unit / non-finite quaternion' % nm,
                    {'class': 'SE3', 'increment_rotation': list(d), 'norm_as_numpy_computes_it': float(np.linalg.norm(np.array(d))), 'result': [float(x) for x in X]})
                break
    # normalize: random quaternions plus fixed awkward ones (unit with w<0, identity negated, almost-unit, w = 0)
    fixed_q = [[0.5, 0.5, 0.5, -0.5], [0.0, 0.0, 0.0, -1.0], [0.6, 0.0, 0.0, -0.8], [0.5, 0.5, 0.5, 0.5 * (1 + 1e-6)],
               [0.5 * (1 - 1e-7), -0.5, 0.5, -0.5], [1.0, 0.0, 0.0, 0.0], [2.0, 0.0, 0.0, -2.0]]
    for i in range(n + len(fixed_q)):
        evals += 1
        q = fixed_q[i] if i < len(fixed_q) else [rng.gauss(0, 1) * rng.choice([1e-3, 1.0, 1e3]) for _ in range(4)]
        P = PoseSE3([1.0, 2.0, 3.0], q)
        R0 = hom('SE3', P.to_array())
        used = rng.random() < 0.5
        if used:            # the object was USED before it was normalised (inverse, composition, matrix)
            P.inverse, P + P, P.to_matrix(), P - P
        P.normalize()
        if abs(float(np.linalg.norm(P[3:])) - 1) > 1e-12 or P[6] < 0 or not np.allclose(hom('SE3', P.to_array()), R0, atol=1e-9):
            bad('normalize', {'class': 'SE3', 'q': q, 'result': [float(x) for x in P]})
            continue
        # ... and what it produces afterwards is produced from the NORMALISED quaternion: unit results, the right transforms
        F = PoseSE3([1.0, 2.0, 3.0], [float(x) for x in np.asarray(P)[3:]])
        for nm, X, Y in (('inverse', P.inverse, F.inverse), ('oplus', P + P, F + F), ('ominus', P - F, F - F), ('inverse.inverse', P.inverse.inverse, F)):
            nn = float(np.linalg.norm(np.asarray(X)[3:]))
            if not abs(nn - 1.0) <= 1e-9 or not np.allclose(hom('SE3', np.asarray(X)), hom('SE3', np.asarray(Y)), atol=1e-9):
                bad('after normalize()%s, %s of the pose is not that of the normalised pose (quaternion norm %r)' % (' of a pose that had been used' if used else '', nm, nn),
                    {'class': 'SE3', 'q': q, 'result': [float(x) for x in X], 'expected': [float(x) for x in Y]})
                break
    return evals, fails
