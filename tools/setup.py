#!/venv/bin/python
"""setup.py -- MANIFEST.setup_cmd: regenerate the generated model from /repo and build every property
theorem (full .vo build).  A failure to build one property does not stop the others (make -k);
each check re-runs make for its own cone anyway."""
import glob
import os
import sys

HERE = os.path.dirname(os.path.abspath(__file__))
sys.path.insert(0, HERE)
import vlib  # noqa: E402

summ = vlib.regen()
for tr, s in summ.items():
    if 'error' in s:
        print('translator %s failed:\n%s' % (tr, s['error']))
targets = sorted(os.path.relpath(p, vlib.COQ)[:-2] + '.vo' for d in ('lib', 'gen', 'proofs', 'props')
                 for p in glob.glob(os.path.join(vlib.COQ, d, '*.v')))
ok, log = vlib.make(targets, timeout=3000)
print(log[-3000:])
print('setup: built=%s targets=%s' % (ok, ' '.join(targets)))
sys.exit(0)
