"""corr_poses.py -- correspondence check 4.1: every generated pose definition (method x operand kind)
is evaluated inside Coq over primitive floats (lib/ExprF.v) and compared with what the real
graphslam code returns for the same operands."""
import json
import math
from fractions import Fraction
import os
import random
import sys

import numpy as np

import vlib

sys.path.insert(0, vlib.REPO)
from graphslam.pose.r2 import PoseR2  # noqa: E402
from graphslam.pose.r3 import PoseR3  # noqa: E402
from graphslam.pose.se2 import PoseSE2  # noqa: E402
from graphslam.pose.se3 import PoseSE3  # noqa: E402

CLS = {'R2': PoseR2, 'R3': PoseR3, 'SE2': PoseSE2, 'SE3': PoseSE3}
LEN = {'R2': 2, 'R3': 3, 'SE2': 3, 'SE3': 7}
KCODE = {PoseR2: 2, PoseR3: 3, PoseSE2: 12, PoseSE3: 13}
EXN = {'NotImplementedError': 1, 'ValueError': 2, 'IndexError': 3, 'AssertionError': 4, 'KeyError': 5,
       'AttributeError': 6, 'TypeError': 7}
ULP = 2.0 ** -52
PI = math.pi


# ------------------------------------------------------------------------------- generators
def gen_trans(rng, n, flavour):
    if flavour == 'typical':
        return [rng.gauss(0, 10) for _ in range(n)]
    c = rng.choice(['zero', 'negzero', 'huge', 'tiny', 'int', 'mixed', 'axis'])
    if c == 'zero':
        return [0.0] * n
    if c == 'axis':          # exactly on one coordinate axis, e.g. a sensor mounted straight above the vehicle: (0, 0, h)
        v = [0.0] * n
        v[rng.randrange(n)] = rng.choice([1.0, -2.5, rng.gauss(0, 3)])
        return v
    if c == 'negzero':
        return [-0.0] * n
    if c == 'huge':
        return [rng.uniform(-1, 1) * 1e8 for _ in range(n)]
    if c == 'tiny':
        return [rng.uniform(-1, 1) * 1e-9 for _ in range(n)]
    if c == 'int':
        return [float(rng.randint(-50, 50)) for _ in range(n)]
    return [rng.choice([0.0, 1.0, -1.0, rng.gauss(0, 1e4)]) for _ in range(n)]


def gen_angle(rng, flavour):
    if flavour == 'typical':
        return rng.uniform(-PI, PI)
    c = rng.choice(['pi', '-pi', 'pi-', '-pi+', 'pi+', 'big', 'zero', 'halfpi', '-halfpi', '3halfpi', 'multiple'])
    return {'pi': PI, '-pi': -PI, 'pi-': math.nextafter(PI, 0), '-pi+': math.nextafter(-PI, 0),
            'pi+': math.nextafter(PI, 4), 'big': rng.uniform(-1e6, 1e6), 'zero': 0.0, 'halfpi': PI / 2, '-halfpi': -PI / 2, '3halfpi': 3 * PI / 2,
            'multiple': PI * rng.randint(-9, 9)}[c]


def gen_quat(rng, flavour):
    q = [rng.gauss(0, 1) for _ in range(4)]
    if flavour != 'typical':
        c = rng.choice(['wneg', 'wzero', 'rot180x', 'ident', 'negident', 'unnorm', 'axis', 'nearident'])
        if c == 'wneg':
            q[3] = -abs(q[3])
        elif c == 'wzero':
            q[3] = 0.0
        elif c == 'rot180x':
            q = [1.0, 0.0, 0.0, 0.0]
        elif c == 'ident':
            q = [0.0, 0.0, 0.0, 1.0]
        elif c == 'negident':
            q = [-0.0, 0.0, -0.0, -1.0]
        elif c == 'unnorm':
            return [x * 3.0 for x in q]
        elif c == 'axis':
            i = rng.randrange(3)
            q = [0.0] * 4
            q[i] = math.sin(0.3)
            q[3] = math.cos(0.3)
        elif c == 'nearident':
            q = [rng.gauss(0, 1e-8) for _ in range(3)] + [1.0]
    n = math.sqrt(sum(x * x for x in q))
    return [x / n for x in q]


def gen_pose_vals(rng, k, flavour):
    if k == 'R2':
        return gen_trans(rng, 2, flavour)
    if k == 'R3':
        return gen_trans(rng, 3, flavour)
    if k == 'SE2':
        return gen_trans(rng, 2, flavour) + [gen_angle(rng, flavour)]
    return gen_trans(rng, 3, flavour) + gen_quat(rng, flavour)


def make_pose(k, vals):
    if k == 'R2' or k == 'R3':
        return CLS[k](list(vals))
    if k == 'SE2':
        return PoseSE2(vals[:2], vals[2])
    return PoseSE3(vals[:3], vals[3:])


def gen_arr(rng, n, flavour):
    if n == 6:
        t = gen_trans(rng, 3, flavour)
        if flavour == 'typical':
            r = [rng.gauss(0, 0.2) for _ in range(3)]
        else:
            d = [rng.gauss(0, 1) for _ in range(3)]
            nn = math.sqrt(sum(x * x for x in d)) or 1.0
            d = [x / nn for x in d]
            mag = rng.choice([0.0, 1.0 - ULP, 1.0, 1.0 + 4 * ULP, 5.0, 0.999, 1e-9])
            r = [x * mag for x in d]
        return t + r
    if n == 3:
        return gen_trans(rng, 2, flavour) + [gen_angle(rng, flavour)] if rng.random() < 0.5 else gen_trans(rng, 3, flavour)
    if n == 7:
        return gen_trans(rng, 3, flavour) + gen_quat(rng, flavour)
    return gen_trans(rng, n, flavour)


# ------------------------------------------------------------------------------- real code
def classify(res):
    """-> ('vec', kindcode, [floats]) | ('mat', rows, cols, [floats]) | ('scal', x) | ('raise', code)"""
    if isinstance(res, tuple(KCODE)):
        return ('vec', KCODE[type(res)], [float(x) for x in np.asarray(res)])
    if isinstance(res, np.ndarray):
        if res.ndim == 1:
            return ('vec', 100 + len(res), [float(x) for x in res])
        if res.ndim == 2:
            return ('mat', res.shape[0], res.shape[1], [float(x) for x in res.reshape(-1)])
    if isinstance(res, (float, int, np.floating, np.integer)):
        return ('scal', float(res))
    return ('other', repr(type(res)))


def call_real(k, meth, selfvals, okind, ovals):
    """meth is the stripped method name used in the generated definition names."""
    try:
        if meth == 'new':
            return classify(make_pose(k, selfvals))
        if meth == 'identity':
            return classify(CLS[k].identity())
        s = make_pose(k, selfvals)
        real = {'add': '__add__', 'sub': '__sub__', 'iadd': '__iadd__'}.get(meth, meth)
        if okind is None:
            attr = getattr(type(s), real)
            if isinstance(attr, property):
                return classify(getattr(s, real))
            r = getattr(s, real)()
            return classify(s if r is None else r)
        if okind.startswith('arr'):
            o = np.array(ovals, dtype=np.float64)
        else:
            o = make_pose(okind, ovals)
        if real == '__iadd__':
            s += o
            return classify(s)
        return classify(getattr(s, real)(o))
    except Exception as ex:  # noqa
        return ('raise', EXN.get(type(ex).__name__, 98), type(ex).__name__)


def decode(ints):
    """ints: one result as dumped by ExprF.run_meth (without MAGIC)."""
    tag = ints[0]
    if tag == 0:
        n = ints[2]
        body = ints[3:]
        vals = [(vlib.undump(body[4 * i], body[4 * i + 1]), vlib.undump(body[4 * i + 2], body[4 * i + 3])) for i in range(n)]
        return ('vec', ints[1], vals)
    if tag == 1:
        r, c = ints[1], ints[2]
        body = ints[3:]
        vals = [(vlib.undump(body[4 * i], body[4 * i + 1]), vlib.undump(body[4 * i + 2], body[4 * i + 3])) for i in range(r * c)]
        return ('mat', r, c, vals)
    if tag == 2:
        return ('scal', (vlib.undump(ints[1], ints[2]), vlib.undump(ints[3], ints[4])))
    if tag == 3:
        return ('raise', ints[1])
    return ('unsupported',)


TOL = 2.0 ** -40


def boxplus_conditioning(meta):
    """SE(3) boxplus computes w = sqrt(1 - |d_rot|^2) with |d_rot| from np.linalg.norm (whose summation order is numpy's business):
    near |d_rot| = 1 a last-bit difference in |d_rot|^2 is amplified by 1 / (2 sqrt(1 - |d_rot|^2)), and AT the boundary the branch
    `norm > 1.0` itself is decided by that bit.  -> (skip, extra relative tolerance)"""
    try:
        K, meth, okind = meta[0], meta[1], meta[2]
        if K != 'SE3' or meth not in ('add', 'iadd') or okind != 'arr6':
            return False, 0.0
        d = [float(x) for x in meta[4][3:6]]
        gap = abs(1.0 - (d[0] * d[0] + d[1] * d[1] + d[2] * d[2]))
    except Exception:  # noqa
        return False, 0.0
    eps = 2.0 ** -52
    if sum(Fraction(x) ** 2 for x in d) == 1:
        return False, 0.0          # exactly unit (e.g. (0,-1,0)): the norm is exact in any summation order, compare strictly
    if gap <= 16 * eps:
        return True, 0.0
    if gap < 1e-3:
        return False, 8 * eps / math.sqrt(gap)
    return False, 0.0


def close(py, cq, extra=0.0):
    """cq = (value, majorant). Returns (ok, exact)."""
    v, m = cq
    if py != py or v != v:
        return (py != py and v != v), (py != py and v != v)
    if py == v:
        return True, True
    if math.isinf(py) or math.isinf(v):
        return False, False
    return abs(py - v) <= (TOL + extra) * max(m, 1e-300), False


def compare(py, cq, extra=0.0):
    """-> (agree, exact_count, total_count, why)"""
    if cq[0] == 'unsupported':
        return False, 0, 0, 'model has no applicable path / unsupported'
    if py[0] == 'raise':
        if cq[0] == 'raise' and cq[1] == py[1]:
            return True, 1, 1, ''
        return False, 0, 1, 'implementation raises %s, model gives %s' % (py[2], cq[:2])
    if py[0] != cq[0]:
        return False, 0, 1, 'shape class differs: impl %s model %s' % (py[0], cq[0])
    if py[0] == 'vec':
        if py[1] != cq[1] or len(py[2]) != len(cq[2]):
            return False, 0, 1, 'result kind/length differs: impl (%s,%d) model (%s,%d)' % (py[1], len(py[2]), cq[1], len(cq[2]))
        pv, cv = py[2], cq[2]
    elif py[0] == 'mat':
        if py[1:3] != cq[1:3]:
            return False, 0, 1, 'matrix shape differs: impl %s model %s' % (py[1:3], cq[1:3])
        pv, cv = py[3], cq[3]
    elif py[0] == 'scal':
        pv, cv = [py[1]], [cq[1]]
    else:
        return False, 0, 1, 'implementation returned %s' % (py[1],)
    ex = 0
    for i, (a, b) in enumerate(zip(pv, cv)):
        ok, e = close(a, b, extra)
        if not ok:
            return False, ex, len(pv), 'component %d: impl %r model %r (majorant %r)' % (i, a, b[0], b[1])
        ex += e
    return True, ex, len(pv), ''


# ------------------------------------------------------------------------------- driver
def defs_from_summary(summ):
    """[(defname, K, meth, okind)] for the generated definitions"""
    out = []
    for dn in summ['defs']:
        k, rest = dn.split('_', 1)
        if '__' in rest:
            meth, ok = rest.rsplit('__', 1)
        else:
            meth, ok = rest, None
        out.append((dn, k, meth, ok))
    return out


def operand_vals(rng, okind, flavour):
    if okind is None:
        return []
    if okind.startswith('arr'):
        return gen_arr(rng, int(okind[3:]), flavour)
    return gen_pose_vals(rng, okind, flavour)


def new_env(k, vals):
    """environment of the constructor pseudo-method = raw constructor arguments"""
    return vals


def run(summ, seed, per_def, corpus=None):
    """Returns dict(evaluations, agree, exact_components, components, disagreements=[...], hist=...)."""
    rng = random.Random(seed)
    defs = defs_from_summary(summ)
    cases = []
    hist = {'typical': 0, 'adversarial': 0, 'raise': 0, 'kinds': {}}
    for (dn, k, meth, ok) in defs:
        for j in range(per_def):
            fl = 'typical' if rng.random() < 0.6 else 'adversarial'
            sv = gen_pose_vals(rng, k, fl)
            ov = operand_vals(rng, ok, fl)
            cases.append((dn, k, meth, ok, sv, ov, fl))
    if corpus:
        for c in corpus:
            cases.insert(0, tuple(c))
    # real results + actual environments (the stored array of self, after construction)
    rows = []
    for (dn, k, meth, ok, sv, ov, fl) in cases:
        py = call_real(k, meth, sv, ok, ov)
        if meth == 'new':
            env = list(sv)
        elif meth == 'identity':
            env = []
        else:
            try:
                s = make_pose(k, sv)
                env = [float(x) for x in np.asarray(s)]
            except Exception:  # noqa
                env = list(sv)
            if ok is not None:
                if ok.startswith('arr'):
                    env += list(ov)
                else:
                    env += [float(x) for x in np.asarray(make_pose(ok, ov))]
        trig = sorted(set(x for x in env if x == x and not math.isinf(x)))
        rows.append((dn, env, trig, py, (k, meth, ok, sv, ov, fl)))
        hist[fl] = hist.get(fl, 0) + 1
        if py[0] == 'raise':
            hist['raise'] += 1
        hist['kinds'][k] = hist['kinds'].get(k, 0) + 1
    # Coq side: the float interpreter and the generated files must be compiled
    okm, logm = vlib.make(['lib/ExprF.vo', 'gen/GenR2.vo', 'gen/GenR3.vo', 'gen/GenSE2.vo', 'gen/GenSE3.vo'])
    if not okm:
        return {'evaluations': 0, 'agree': 0, 'exact_components': 0, 'components': 0, 'disagreements': [], 'hist': hist,
                'coq_errors': [{'file': 'make lib/ExprF.vo gen/*.vo', 'rc': 2, 'out': logm[-1500:]}]}
    CH = 200
    srcs = []
    for ci in range(0, len(rows), CH):
        chunk = rows[ci:ci + CH]
        lines = ['From Coq Require Import ZArith List Floats.PrimFloat.',
                 'From GS Require Import Expr Meth ExprF GenR2 GenR3 GenSE2 GenSE3.',
                 'Import ListNotations.', 'Open Scope float_scope.',
                 'Definition cases : list (meth * list float * trig_table) := [']
        items = []
        for (dn, env, trig, py, meta) in chunk:
            tt = '; '.join('(%s, (%s, %s))' % (vlib.coqf(x), vlib.coqf(float(np.sin(x))), vlib.coqf(float(np.cos(x)))) for x in trig)
            items.append('  (%s, [%s], [%s])' % (dn, '; '.join(vlib.coqf(x) for x in env), tt))
        lines.append(';\n'.join(items))
        lines.append('].')
        lines.append("Eval vm_compute in flat_map (fun c => match c with (m, env, t) => run_meth t env m end) cases.")
        srcs.append(('poses_%04d' % (ci // CH), '\n'.join(lines) + '\n'))
    outs = vlib.coq_eval_files(srcs, timeout=600)
    res = {'evaluations': 0, 'agree': 0, 'exact_components': 0, 'components': 0, 'disagreements': [],
           'hist': hist, 'coq_errors': []}
    for ci, (name, _) in enumerate(srcs):
        rc, out = outs[name]
        chunk = rows[ci * CH:(ci + 1) * CH]
        if rc != 0:
            res['coq_errors'].append({'file': name, 'rc': rc, 'out': out[-1500:]})
            continue
        parts = vlib.split_magic(vlib.parse_ints(out))
        if len(parts) != len(chunk):
            res['coq_errors'].append({'file': name, 'rc': rc, 'out': 'expected %d results, got %d' % (len(chunk), len(parts))})
            continue
        for (dn, env, trig, py, meta), ints in zip(chunk, parts):
            cq = decode(ints)
            skip, extra = boxplus_conditioning(meta)
            if skip:
                res['boundary_skipped'] = res.get('boundary_skipped', 0) + 1     # |d_rot| = 1 to the last bits: not comparable
                continue
            ok, ex, tot, why = compare(py, cq, extra)
            res['evaluations'] += 1
            res['exact_components'] += ex
            res['components'] += tot
            if ok:
                res['agree'] += 1
            else:
                res['disagreements'].append({'def': dn, 'case': list(meta), 'env': env, 'impl': py, 'why': why})
    return res


if __name__ == '__main__':
    summ = vlib.regen()['tr_poses.py']
    r = run(summ, int(os.environ.get('VERIF_SEED', '1')), int(sys.argv[1]) if len(sys.argv) > 1 else 3)
    r2 = dict(r)
    r2['disagreements'] = r['disagreements'][:5]
    print(json.dumps(r2, indent=1, default=str)[:6000])
