#!/usr/bin/env python3
"""tr_effects.py -- regenerate coq/gen/GenEffects.v: for every method of every class of the graphslam
package, the list of SYNTACTIC store effects of its body:
   EWriteAttr obj attr      obj.attr = ... / obj.attr op= ...          (rebinding an attribute)
   EWriteInto obj           obj[...] = ... / obj[...] op= ... / np.f(..., out=obj)   (writing into an object)
   EAugAttr obj attr        obj.attr op= ...     (also calls type(obj.attr).__i<op>__, see ECallDunder)
   ECallMut obj meth        obj.meth(...) with meth a known in-place mutator (normalize, append, sort, ...)
   ECall meth               a call of another method / property by name (receiver not resolved)
`obj` is an access path rooted at `self`, a parameter, a loop variable bound to an element of such a path
(written path[*]), or `fresh` when the object was created inside the method (constructor call, arithmetic,
copy(), np.array, literal).  The analysis is conservative and purely syntactic; what it CANNOT see
(aliasing through numpy views, objects shared between vertices) is covered by the oracle of C15 only.
Fail-closed: a statement kind it does not understand is recorded as EUnknown."""
import argparse
import ast
import json
import os
import sys

sys.path.insert(0, os.path.dirname(os.path.abspath(__file__)))
from tr_poses import write_if_changed  # noqa: E402

FILES = ['pose/base_pose.py', 'pose/r2.py', 'pose/r3.py', 'pose/se2.py', 'pose/se3.py', 'edge/base_edge.py',
         'edge/edge_odometry.py', 'edge/edge_landmark.py', 'vertex.py', 'graph.py', 'g2o_parameters.py', 'util.py']
MUTATORS = {'normalize', 'append', 'extend', 'insert', 'pop', 'remove', 'clear', 'sort', 'reverse', 'update', 'add', 'discard',
            'setdefault', 'fill', 'resize', 'itemset', 'put', 'setflags', '__setitem__', '__delitem__', 'popitem', 'setfield', 'byteswap'}
FRESH_CALLS = {'copy', 'deepcopy', 'array', 'zeros', 'ones', 'eye', 'asarray_fresh', 'dot', 'transpose_fresh', 'to_array', 'to_compact',
               'to_matrix', 'identity', 'lil_matrix', 'format', 'join', 'split', 'strip', 'rstrip', 'list', 'dict', 'set', 'tuple',
               'float', 'int', 'str', 'len', 'sum', 'max', 'min', 'round', 'abs', 'sqrt', 'sin', 'cos', 'norm', 'spsolve', 'time',
               'reduce', 'range', 'enumerate', 'zip', 'triu_indices', 'tril_indices', 'add_np', 'subtract_np', 'figure', 'isinstance',
               'issubclass', 'type', 'startswith', 'finfo', 'readlines', 'warning', 'getLogger', 'atan2', 'items', 'values', 'keys', 'equals',
               'calc_error', 'calc_chi2', 'calc_jacobians', 'calc_chi2_gradient_hessian', 'to_g2o', 'from_g2o', 'is_valid', '_is_valid',
               '_calc_jacobian', 'inverse', 'position', 'orientation', 'neg_pi_to_pi', 'solve_for_edge_dimensionality',
               'upper_triangular_matrix_to_full_matrix', 'param_from_g2o', 'custom_edge_from_g2o', 'is_complete_iteration', 'plot', 'show',
               'title', 'add_subplot', 'any', 'all', 'print', 'open', 'write', 'view', 'asarray', 'add', 'subtract'}


def path_of(node, env):
    """access path of an expression, or 'fresh' / None (unknown)"""
    if isinstance(node, ast.Name):
        return env.get(node.id, None if node.id not in env else env[node.id])
    if isinstance(node, ast.Attribute):
        b = path_of(node.value, env)
        if b is None:
            return None
        if b == 'fresh':
            return 'fresh'
        return b + '.' + node.attr
    if isinstance(node, ast.Subscript):
        b = path_of(node.value, env)
        if b is None:
            return None
        if b == 'fresh':
            return 'fresh'
        if isinstance(node.slice, ast.Slice) or (isinstance(node.slice, ast.Tuple)):
            return b          # a slice of an array is a view into the same object
        return b + '[*]'
    if isinstance(node, (ast.Constant, ast.BinOp, ast.UnaryOp, ast.Compare, ast.BoolOp, ast.List, ast.Tuple, ast.Dict, ast.Set,
                         ast.ListComp, ast.GeneratorExp, ast.DictComp, ast.SetComp, ast.JoinedStr, ast.Lambda)):
        return 'fresh'
    if isinstance(node, ast.IfExp):
        a, b = path_of(node.body, env), path_of(node.orelse, env)
        return a if a == b else (a if b == 'fresh' else b if a == 'fresh' else None)
    if isinstance(node, ast.Call):
        f = node.func
        name = f.attr if isinstance(f, ast.Attribute) else f.id if isinstance(f, ast.Name) else None
        if name in ('asarray', 'view'):
            # np.asarray(x) / x.view(cls) may ALIAS x
            src = node.args[0] if (name == 'asarray' and node.args) else (f.value if isinstance(f, ast.Attribute) else None)
            p = path_of(src, env) if src is not None else 'fresh'
            return p
        if name == 'transpose' and node.args:
            return path_of(node.args[0], env)      # a view
        return 'fresh'
    return None


class Collector(ast.NodeVisitor):
    def __init__(self, params):
        self.env = {p: p for p in params}
        self.effects = []

    def eff(self, *e):
        if list(e) not in self.effects:
            self.effects.append(list(e))

    def obj(self, node):
        p = path_of(node, self.env)
        return 'unknown' if p is None else p

    def store(self, tgt, aug=False):
        if isinstance(tgt, ast.Name):
            return
        if isinstance(tgt, (ast.Tuple, ast.List)):
            for t in tgt.elts:
                self.store(t, aug)
            return
        if isinstance(tgt, ast.Attribute):
            o = self.obj(tgt.value)
            # the fixed flag: `x[0].fixed = ...` (the FIRST element, what fix_first_pose does) is kept apart from a store through any
            # other element or a loop variable (path[*]); only the former is something optimize() may do
            v = tgt.value
            if tgt.attr == 'fixed' and isinstance(v, ast.Subscript) and isinstance(v.slice, ast.Constant) and v.slice.value == 0 and o.endswith('[*]'):
                o = o[:-3] + '[0]'
            self.eff('EAugAttr' if aug else 'EWriteAttr', o, tgt.attr)
            return
        if isinstance(tgt, ast.Subscript):
            self.eff('EWriteInto', self.obj(tgt.value))
            return
        if isinstance(tgt, ast.Starred):
            self.store(tgt.value, aug)
            return
        self.eff('EUnknown', type(tgt).__name__)

    def bind(self, tgt, value):
        if isinstance(tgt, ast.Name):
            p = path_of(value, self.env) if value is not None else 'fresh'
            self.env[tgt.id] = 'unknown' if p is None else p
        elif isinstance(tgt, (ast.Tuple, ast.List)):
            for t in tgt.elts:
                if isinstance(t, ast.Name):
                    p = path_of(value, self.env) if value is not None else 'fresh'
                    self.env[t.id] = 'fresh' if p == 'fresh' else ('unknown' if p is None else p + '[*]')

    def visit_Assign(self, node):
        self.visit(node.value)
        for t in node.targets:
            self.store(t)
            self.bind(t, node.value)

    def visit_AugAssign(self, node):
        self.visit(node.value)
        self.store(node.target, aug=True)
        if isinstance(node.target, ast.Name):
            # x op= y on a local: in-place on the object x denotes, when x aliases something
            p = self.env.get(node.target.id)
            if p not in (None, 'fresh'):
                self.eff('EAugLocal', p)

    def visit_AnnAssign(self, node):
        if node.value is not None:
            self.visit(node.value)
        self.store(node.target)
        self.bind(node.target, node.value)

    def visit_Delete(self, node):
        for t in node.targets:
            self.store(t)

    def visit_For(self, node):
        self.visit(node.iter)
        it = node.iter
        src = it
        if isinstance(it, ast.Call) and isinstance(it.func, ast.Name) and it.func.id in ('enumerate', 'zip') and it.args:
            # for i, v in enumerate(xs) / for a, b in zip(xs, ys)
            if it.func.id == 'enumerate' and isinstance(node.target, ast.Tuple) and len(node.target.elts) == 2:
                self.bind(node.target.elts[0], None)
                p = path_of(it.args[0], self.env)
                if isinstance(node.target.elts[1], ast.Name):
                    self.env[node.target.elts[1].id] = 'fresh' if p == 'fresh' else ('unknown' if p is None else p + '[*]')
            elif it.func.id == 'zip' and isinstance(node.target, ast.Tuple):
                for t, a in zip(node.target.elts, it.args):
                    p = path_of(a, self.env)
                    if isinstance(t, ast.Name):
                        self.env[t.id] = 'fresh' if p == 'fresh' else ('unknown' if p is None else p + '[*]')
            else:
                self.bind(node.target, None)
        else:
            p = path_of(src, self.env)
            if isinstance(node.target, ast.Name):
                self.env[node.target.id] = 'fresh' if p == 'fresh' else ('unknown' if p is None else p + '[*]')
            else:
                self.bind(node.target, src)
        for st in node.body + node.orelse:
            self.visit(st)

    def visit_With(self, node):
        for it in node.items:
            self.visit(it.context_expr)
            if it.optional_vars is not None:
                self.bind(it.optional_vars, None)
        for st in node.body:
            self.visit(st)

    def visit_Call(self, node):
        f = node.func
        if isinstance(f, ast.Attribute):
            is_module = isinstance(f.value, ast.Name) and f.value.id in ('np', 'math', 'plt', 'time', 'logging', 'warnings', '_LOGGER') \
                and f.value.id not in self.env
            if f.attr in MUTATORS and not is_module:
                recv = f.value
                if isinstance(recv, ast.Name) and recv.id not in self.env and recv.id.lstrip('_')[:1].isupper() and node.args:
                    recv = node.args[0]       # unbound call  Class.meth(obj, ...): the receiver is the first argument
                self.eff('ECallMut', self.obj(recv), f.attr)
            self.eff('ECall', f.attr)
        elif isinstance(f, ast.Name):
            self.eff('ECall', f.id)
        for k in node.keywords:
            if k.arg == 'out':
                self.eff('EWriteInto', self.obj(k.value))
        self.generic_visit(node)

    def visit_Attribute(self, node):
        if isinstance(node.ctx, ast.Load):
            self.eff('ECall', node.attr)      # may be a property: resolved by name on the Coq side
        self.generic_visit(node)

    def visit_FunctionDef(self, node):
        # nested helper functions: analysed as part of the enclosing method (conservative)
        for st in node.body:
            self.visit(st)

    def visit_Global(self, node):
        self.eff('EUnknown', 'global')

    def visit_Nonlocal(self, node):
        self.eff('EUnknown', 'nonlocal')


def analyse(repo):
    table = {}
    for rel in FILES:
        tree = ast.parse(open(os.path.join(repo, 'graphslam', rel)).read())

        def do_func(cls, fn):
            params = [a.arg for a in fn.args.args] + ([fn.args.vararg.arg] if fn.args.vararg else []) + [a.arg for a in fn.args.kwonlyargs]
            c = Collector(params)
            for st in fn.body:
                c.visit(st)
            table['%s.%s' % (cls, fn.name)] = c.effects
        for n in tree.body:
            if isinstance(n, ast.ClassDef):
                for m in n.body:
                    if isinstance(m, ast.FunctionDef):
                        do_func(n.name, m)
                    elif isinstance(m, ast.ClassDef):
                        for mm in m.body:
                            if isinstance(mm, ast.FunctionDef):
                                do_func(n.name + '_' + m.name, mm)
            elif isinstance(n, ast.FunctionDef):
                do_func('module', n)
    return table


def coq_str(s):
    return '"' + s.replace('"', "'") + '"'


def emit(table):
    out = ['(* GENERATED by tools/tr_effects.py from every class of the graphslam package -- do not edit. *)',
           'From Coq Require Import List String.', 'From GS Require Import EffectModel.', 'Import ListNotations.',
           'Open Scope string_scope.', '', 'Definition effects_table : list (string * list eff) := [']
    items = []
    for k in sorted(table):
        effs = []
        for e in table[k]:
            if e[0] in ('EWriteAttr', 'EAugAttr', 'ECallMut'):
                effs.append('%s %s %s' % (e[0], coq_str(e[1]), coq_str(e[2])))
            else:
                effs.append('%s %s' % (e[0], coq_str(e[1])))
        items.append('  (%s, [%s])' % (coq_str(k), '; '.join(effs)))
    out.append(';\n'.join(items))
    out.append('].')
    return '\n'.join(out) + '\n'


def main():
    ap = argparse.ArgumentParser()
    ap.add_argument('--repo', default='/repo')
    ap.add_argument('--out', default=os.path.join(os.path.dirname(os.path.abspath(__file__)), '..', 'coq', 'gen'))
    ap.add_argument('--json', default=None)
    a = ap.parse_args()
    table = analyse(a.repo)
    changed = write_if_changed(os.path.join(a.out, 'GenEffects.v'), emit(table))
    if a.json:
        json.dump({'defs': {k: ['ok'] for k in table}, 'effects': table, 'changed': changed}, open(a.json, 'w'), indent=1)
    return 0


if __name__ == '__main__':
    sys.exit(main())
