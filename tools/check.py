#!/venv/bin/python
"""check.py -- entry point of every check:  check.py Cxx [--tier quick|thorough] [--replay file]

Protocol (DESIGN.md section 2): forbidden-token scan, regeneration of the generated model from
/repo's working tree, `make` of the property's proof cone, Print Assumptions, correspondence
checks, direct oracle on the implementation; on any break a search for a concrete failing input;
evidence/<id>.json; exit 0, or exit 1 with `VIOLATION property=<id> replay=<path>`.
"""
import argparse
import importlib
import json
import os
import sys

HERE = os.path.dirname(os.path.abspath(__file__))
sys.path.insert(0, HERE)
os.environ.setdefault('PYTHONHASHSEED', '0')
os.environ.setdefault('OMP_NUM_THREADS', '1')
os.environ.setdefault('OPENBLAS_NUM_THREADS', '1')

import vlib  # noqa: E402

sys.path.insert(0, vlib.REPO)

TRUSTED_COMMON = [
    'Coq 8.16.1 kernel (coqc; vm_compute used only in correspondence files and closed computations; no native_compute)',
    'axioms reported by Print Assumptions (listed in coverage.print_assumptions)',
    'translators tools/tr_poses.py, tools/tr_edges.py, tools/symx.py (validated by the float correspondence, not verified)',
    'correspondence harness and its generators (tools/corr_*.py)',
]


def proof_stage(rep, prop, theorems, cone_desc):
    """Common part: scan, regen, make props/<prop>.vo, Print Assumptions.
    Returns (ok, info) where info holds make log tail and the translator summary."""
    bad = vlib.forbidden_scan()
    rep.obligation('forbidden-token scan of coq/ (Admitted, admit, Axiom, Parameter, ...)', not bad,
                   '; '.join('%s:%d %s' % b for b in bad[:5]))
    summ = vlib.regen()
    for tr, s in summ.items():
        rep.obligation('translator %s ran' % tr, 'error' not in s, s.get('error', ''))
    target = 'props/%s.vo' % prop
    ok, log = vlib.make([target], timeout=1500)
    built = ok and vlib.vo_ok(target)
    rep.obligation('make %s (%s)' % (target, cone_desc), built, log[-3000:])
    info = {'summary': summ, 'make_log_tail': log[-3000:], 'built': built, 'scan_ok': not bad}
    if built:
        rc, out = vlib.print_assumptions('props/%s.v' % prop, theorems)
        axioms = []
        seen = False
        for l in out.splitlines():
            if l.startswith('Axioms:'):
                seen = True
                continue
            if l.startswith('Closed under'):
                seen = False
                continue
            if seen and l and not l[0].isspace():
                axioms.append(l.split()[0])
        axioms = sorted(set(axioms))
        rep.cov['print_assumptions'] = axioms if axioms else ['Closed under the global context']
        rep.obligation('Print Assumptions of %s shows only standard-library axioms' % ', '.join(theorems),
                       rc == 0 and all(a.startswith(('ClassicalDedekindReals.', 'FunctionalExtensionality.',
                                                     'Classical_Prop.', 'Eqdep.', 'ProofIrrelevance.',
                                                     'JMeq.', 'ClassicalEpsilon.', 'PropExtensionality.',
                                                     'Closed under')) for a in rep.cov['print_assumptions']),
                       out[-1500:])
    if built and rep.tier == 'thorough' and not os.environ.get('VERIF_NO_COQCHK'):
        # independent re-check of the compiled property file and everything it depends on
        rc, out = vlib.sh('timeout 2400 coqchk -silent -o -R %s GS GS.props.%s 2>&1 | tail -40' % (vlib.COQ, prop), timeout=2500)
        axs = []
        sec = None
        for l in out.splitlines():
            t = l.strip()
            if t.startswith('* '):
                sec = t
            elif t and sec and sec.startswith('* Axioms') and not t.startswith('='):
                axs.append(t)
        bad_sections = [l for l in out.splitlines() if ('type-in-type' in l or 'unsafe' in l or 'positivity is assumed' in l) and '<none>' not in l]
        rep.cov['coqchk'] = {'rc': rc, 'axioms': axs[:40], 'tail': out[-600:]}
        rep.obligation('coqchk -o GS.props.%s (independent checker): no type-in-type, no unsafe fixpoints, no assumed positivity' % prop,
                       'CONTEXT SUMMARY' in out and not bad_sections, out[-1500:])
    rep.cov['checker_cmd'] = ('make -C coq props/%s.vo   (full .vo build via coq_makefile, coqc under timeout); coqc Print Assumptions; '
                              'thorough tier: coqchk -silent -o GS.props.%s' % (prop, prop))
    return built and not bad, info


def unsupported_defs(summ, prefix_filter=None):
    out = []
    for tr, s in summ.items():
        for dn, paths in s.get('defs', {}).items():
            if 'unsupported' in paths and (prefix_filter is None or prefix_filter(dn)):
                out.append(dn)
    return out


def main():
    ap = argparse.ArgumentParser()
    ap.add_argument('prop')
    ap.add_argument('--tier', default=os.environ.get('VERIF_TIER', 'quick'), choices=['quick', 'thorough'])
    ap.add_argument('--replay', default=None)
    a = ap.parse_args()
    seed = int(os.environ.get('VERIF_SEED', '20260930'))
    mod = importlib.import_module('props.' + a.prop.lower())
    if a.replay:
        payload = json.load(open(a.replay))
        return mod.replay(payload)
    rep = vlib.Report(a.prop, a.tier, seed, level='proof')
    rep.cov['trusted_base'] = list(TRUSTED_COMMON)
    try:
        mod.run(rep, a.tier, seed)
    except Exception as ex:  # a crash of the machinery is a broken check, reported as such
        import traceback
        tb = traceback.format_exc()
        rep.obligation('check machinery ran to completion', False, tb)
        rep.violation('machinery', {'traceback': tb, 'what': 'the check itself crashed: %r' % (ex,)}, no_input=True)
    if rep.cov['discharged'] < rep.cov['obligations'] and not rep.violations and not rep.known_hits:
        failed = [o for o in rep.cov.get('obligation_list', []) if not o['ok']]
        rep.violation('unproved', {'what': 'obligation(s) not discharged and no failing input was found',
                                   'failed_obligations': failed}, no_input=True)
    return rep.finish()


if __name__ == '__main__':
    sys.exit(main())
