#!/bin/bash
# developer tool: apply each behaviour-preserving rewrite kept under seeded/neutral_*/ in a scratch worktree of /repo and run every
# quick check against it in scratch mode; every line must end without a VIOLATION (an alarm here is a false alarm).
cd /verif
out=build/neutral.log; : > $out
for d in seeded/neutral_*; do
  n=$(basename $d); wt=/tmp/wt/$n; sc=/tmp/wt/${n}_scratch
  git -C /repo worktree remove --force $wt >/dev/null 2>&1; rm -rf $sc; mkdir -p /tmp/wt
  git -C /repo worktree add -q $wt HEAD && git -C $wt apply /verif/$d/patch.diff || { echo "$n: patch does not apply" >> $out; continue; }
  for p in C01 C02 C03 C04 C05 C06 C07 C08 C09 C10 C11 C12 C13 C14 C15 C16 C17 C18; do
    s=$(date +%s)
    r=$(VERIF_REPO=$wt VERIF_SCRATCH=$sc PYTHONPATH=$wt PYTHONHASHSEED=0 /venv/bin/python tools/check.py $p --tier quick 2>&1 | grep "VIOLATION\|Traceback" | head -2)
    echo "$n $p wall=$(( $(date +%s)-s ))s ${r:0:250}" >> $out
  done
  git -C /repo worktree remove --force $wt; rm -rf $sc
done
echo DONE >> $out
