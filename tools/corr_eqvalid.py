"""corr_eqvalid.py -- correspondence 4.5 for C17 (equals) and C18 (graph construction / is_valid).

The hand-written Gallina models coq/lib/EqualsModel.v and coq/lib/ValidModel.v are EXECUTED inside Coq
(vm_compute; rationals for C17) and the implementation is run on the same inputs; verdicts
(True / False / exception class; Ok + binding / KeyError / AssertionError) are compared exactly.

Printing 10^6 results from Coq is far too slow (about 50 us per list element), so both sides hash
their result codes in blocks (coq/lib/CorrHash.v, `hashes` here); a block whose hashes differ is
re-run with explicit output to locate the first disagreeing case.

Also here: the DIRECT ORACLES, i.e. the declarative specifications re-implemented in Python
(`spec_equal`, `c18_spec`) and evaluated against the implementation; they produce the replays."""
import itertools
import json
import math
import os
import random
import sys
from fractions import Fraction as Fr

import numpy as np

import vlib

sys.path.insert(0, vlib.REPO)
from graphslam.graph import Graph  # noqa: E402
from graphslam.vertex import Vertex  # noqa: E402
from graphslam.edge.base_edge import BaseEdge  # noqa: E402
from graphslam.edge.edge_odometry import EdgeOdometry  # noqa: E402
from graphslam.edge.edge_landmark import EdgeLandmark  # noqa: E402
from graphslam.pose.r2 import PoseR2  # noqa: E402
from graphslam.pose.r3 import PoseR3  # noqa: E402
from graphslam.pose.se2 import PoseSE2  # noqa: E402
from graphslam.pose.se3 import PoseSE3  # noqa: E402

MAGIC = vlib.MAGIC
HP = 2305843009213693951
EXN = {'NotImplementedError': 1, 'ValueError': 2, 'IndexError': 3, 'AssertionError': 4, 'KeyError': 5,
       'AttributeError': 6, 'TypeError': 7}
EXN_INV = {v: k for k, v in EXN.items()}
KINDS = ['R2', 'R3', 'SE2', 'SE3']
PLEN = {'R2': 2, 'R3': 3, 'SE2': 3, 'SE3': 7}
PDIM = {'R2': 2, 'R3': 3, 'SE2': 3, 'SE3': 6}
POSECLS = {'R2': PoseR2, 'R3': PoseR3, 'SE2': PoseSE2, 'SE3': PoseSE3}
BLOCK = 500


def hashes(codes, per=BLOCK):
    out, acc, cnt = [], 0, 0
    for c in codes:
        acc = (acc * 1000003 + c + 1) % HP
        cnt += 1
        if cnt == per:
            out.append(acc)
            acc, cnt = 0, 0
    if cnt:
        out.append(acc)
    return out


def coq_lists(named_sources, timeout=900):
    """run the files; returns {name: [list of ints after each MAGIC]} or {name: None} on a Coq error"""
    res = vlib.coq_eval_files(named_sources, timeout=timeout)
    out = {}
    for name, (rc, text) in res.items():
        if rc != 0 or 'Error' in text:
            out[name] = {'error': text[-1500:]}
        else:
            out[name] = vlib.split_magic(vlib.parse_ints(text))
    return out


# =============================================================================================
#                                         C17
# =============================================================================================
class CustomA(BaseEdge):
    """a user edge class in the style of tests/edge_types.py (inherits BaseEdge.equals)"""

    def is_valid(self):
        return self._is_valid()

    def calc_error(self):
        return np.array([1.0, 2.0])


class CustomB(CustomA):
    """a second, distinct user edge class"""


def val(p):
    return Fr(((7 * p + 3) % 11) - 5, 4)


def nums(scale, salt, n, angle_at=None):
    out = []
    for p in range(n):
        v = val(salt + p)
        if scale == 0:
            v = Fr(0)
        elif scale == 2 and p != angle_at:
            v = v * 4096
        out.append(v)
    return out


# ---- descriptions (plain data; JSON-able after numbers are turned into strings)
def d_pose(kind, n=None, scale=1, salt=0):
    n = PLEN[kind] if n is None else n
    return {'t': 'pose', 'kind': kind, 'num': nums(scale, salt, n, 2 if kind == 'SE2' else None)}


def d_arr(shape, scale=1, salt=0):
    n = 1
    for s in shape:
        n *= s
    return {'t': 'arr', 'shape': list(shape), 'num': nums(scale, salt, n)}


POSE_SHAPES = [('R2', 2), ('R3', 3), ('SE2', 3), ('SE3', 7), ('R2', 3), ('R3', 2), ('R2', 1)]
E_CLS = ['Odometry', 'Landmark', 'CustomA', 'CustomB']
E_IDS = [[1, 2], [2, 1], [1, 2, 3]]
E_INFO = [(2, 2), (3, 3), (2, 3)]
E_EST = ['R2', 'R3', 'SE2', 'SE3', (2,), (3,), ()]
E_OFF = ['R2', 'R3', 'SE2', 'SE3', None]
E_OFFID = [None, 0, 1]


def d_edge(cls, ids, info, est, off, offid, scale=1):
    e = {'t': 'edge', 'cls': cls, 'ids': list(ids), 'info': d_arr(info, scale, 2)}
    e['est'] = d_pose(est, None, scale, 4) if isinstance(est, str) else d_arr(est, scale, 4)
    e['off'] = d_pose(off, None, scale, 6) if off is not None else None
    e['offid'] = offid
    return e


def edge_shapes():
    out = []
    for cls in E_CLS:
        for ids in E_IDS:
            for info in E_INFO:
                for est in E_EST:
                    if cls == 'Landmark':
                        for off in E_OFF:
                            for offid in E_OFFID:
                                out.append((cls, ids, info, est, off, offid))
                    else:
                        out.append((cls, ids, info, est, None, None))
    return out


def d_vertex(vid, kind, scale=1):
    return {'t': 'vertex', 'id': vid, 'pose': d_pose(kind, None, scale, 1)}


def d_graph(family, variant, scale=1):
    """valid graphs: 5 vertices (ids 1..5), edges odometry(1,2), odometry(2,3), custom(4), landmark(3,4)"""
    K = ['R2', 'SE2', 'SE3'][family]
    P = 'R3' if K == 'SE3' else 'R2'
    n = PDIM[K]
    npt = PDIM[P]
    vs = [d_vertex(1, K, scale), d_vertex(2, K, scale), d_vertex(3, K, scale), d_vertex(4, P, scale), d_vertex(5, 'R2', scale)]
    es = [d_edge('Odometry', [1, 2], (n, n), K, None, None, scale),
          d_edge('Odometry', [2, 3], (n, n), K, None, None, scale),
          d_edge('CustomA', [4], (2, 2), (2,), None, None, scale),
          d_edge('Landmark', [3, 4], (npt, npt), P, K, 0 if K == 'SE3' else None, scale)]
    if variant == 1:
        es = es[:-1]
    elif variant == 2:
        vs = vs + [d_vertex(6, 'R2', scale)]
    elif variant == 3:
        es = [es[1], es[0]] + es[2:]
    elif variant == 4:
        vs = [vs[1], vs[0]] + vs[2:]
    elif variant == 5:
        es[2]['cls'] = 'CustomB'
    elif variant == 6:
        vs[4] = d_vertex(5, 'R3', scale)
    elif variant == 7:
        vs[4] = d_vertex(7, 'R2', scale)
    elif variant == 8:
        es[0]['ids'] = [2, 1]
    elif variant == 9:
        es[3]['offid'] = 1
    elif variant == 10:
        es, vs = [], []
    elif variant == 11:
        es = es[:2]
        vs = vs[:3]
    elif variant == 12:
        vs = vs[:4]          # 4 edges + 4 vertices: the same TOTAL number of parts as variant 1 (3 edges + 5 vertices), different counts
    elif variant == 13:
        vs[4] = d_vertex(5, 'R2', 2)      # one far vertex (coordinates x 4096) among ordinary ones: each vertex is compared against its OWN size
    elif variant == 14:
        vs[0] = d_vertex(1, K, 2)
    return {'t': 'graph', 'edges': es, 'vertices': vs}


# ---- numeric components of a description, in the order of coq/lib/EqCorr.v
def arrays_of(d):
    """list of the `num` lists (by reference) of a description, in component order"""
    t = d['t']
    if t in ('pose', 'arr'):
        return [d['num']]
    if t == 'vertex':
        return [d['pose']['num']]
    if t == 'edge':
        out = [d['info']['num'], d['est']['num']]
        if d['off'] is not None:
            out.append(d['off']['num'])
        return out
    out = []
    for e in d['edges']:
        out += arrays_of(e)
    for v in d['vertices']:
        out += arrays_of(v)
    return out


def ncomp(d):
    return sum(len(a) for a in arrays_of(d))


def clone(d):
    if isinstance(d, dict):
        return {k: clone(v) for k, v in d.items()}
    if isinstance(d, list):
        return [clone(v) for v in d]
    return d


def perturb(d, c, delta):
    d = clone(d)
    off = 0
    for a in arrays_of(d):
        if off <= c < off + len(a):
            a[c - off] = a[c - off] + delta
            break
        off += len(a)
    return d


def array_with(d, c):
    off = 0
    for a in arrays_of(d):
        if off <= c < off + len(a):
            return a
        off += len(a)
    return None


# ---- description -> Gallina
def q(x):
    x = Fr(x)
    return '(%d # %d)' % (x.numerator, x.denominator)


PK = {'R2': 'PR2', 'R3': 'PR3', 'SE2': 'PSE2', 'SE3': 'PSE3'}
ECLS = {'Odometry': 'Odometry', 'Landmark': 'Landmark', 'CustomA': '(Custom 0)', 'CustomB': '(Custom 1)'}


def to_coq(d):
    t = d['t']
    if t == 'pose':
        return '(mkpose %s [%s])' % (PK[d['kind']], '; '.join(q(x) for x in d['num']))
    if t == 'arr':
        return '(mkarr [%s]%%nat [%s])' % ('; '.join(str(s) for s in d['shape']), '; '.join(q(x) for x in d['num']))
    if t == 'vertex':
        return '(mkvertex %d%%Z %s)' % (d['id'], to_coq(d['pose']))
    if t == 'edge':
        est = ('(EPose %s)' if d['est']['t'] == 'pose' else '(EArr %s)') % to_coq(d['est'])
        off = '(Some %s)' % to_coq(d['off']) if d['off'] is not None else 'None'
        offid = '(Some %d%%Z)' % d['offid'] if d['offid'] is not None else 'None'
        return '(mkedge %s [%s]%%Z %s %s %s %s)' % (ECLS[d['cls']], '; '.join(str(i) for i in d['ids']), to_coq(d['info']), est, off, offid)
    return '(mkgraph [%s] [%s])' % ('; '.join(to_coq(e) for e in d['edges']), '; '.join(to_coq(v) for v in d['vertices']))


# ---- description -> implementation object
def to_py(d):
    t = d['t']
    if t == 'pose':
        f = [float(x) for x in d['num']]
        k = d['kind']
        if k == 'R2':
            return PoseR2(f)
        if k == 'R3':
            return PoseR3(f)
        if k == 'SE2':
            p = PoseSE2(f[:2], f[2])
            p[2] = f[2]          # the model takes the stored numbers; keep them exactly as given
            return p
        return PoseSE3(f[:3], f[3:])
    if t == 'arr':
        f = [float(x) for x in d['num']]
        if not d['shape']:
            return f[0]
        return np.array(f, dtype=np.float64).reshape(d['shape'])
    if t == 'vertex':
        return Vertex(d['id'], to_py(d['pose']))
    if t == 'edge':
        info, est = to_py(d['info']), to_py(d['est'])
        if d['cls'] == 'Odometry':
            return EdgeOdometry(list(d['ids']), info, est)
        if d['cls'] == 'Landmark':
            return EdgeLandmark(list(d['ids']), info, est, offset=to_py(d['off']) if d['off'] is not None else None, offset_id=d['offid'])
        return {'CustomA': CustomA, 'CustomB': CustomB}[d['cls']](list(d['ids']), info, est)
    return Graph([to_py(e) for e in d['edges']], [to_py(v) for v in d['vertices']])


def snapshot(o):
    """every number, id, flag and type an equals() could look at, as plain hashable data (arrays byte for byte)"""
    if isinstance(o, np.ndarray):
        return (type(o).__name__, str(o.dtype), o.shape, np.asarray(o).tobytes())
    if isinstance(o, Vertex):
        return ('Vertex', o.id, snapshot(o.pose), repr(o.fixed))
    if isinstance(o, BaseEdge):
        return (type(o).__name__, tuple(o.vertex_ids), snapshot(o.information), snapshot(o.estimate), snapshot(getattr(o, 'offset', None)),
                repr(getattr(o, 'offset_id', None)), tuple(snapshot(v) for v in (o.vertices or [])))
    if isinstance(o, Graph):
        return ('Graph', tuple(snapshot(e) for e in o._edges), tuple(snapshot(v) for v in o._vertices))
    return repr(o)


def _equals_code(a, b, tol):
    try:
        r = a.equals(b, float(tol))
    except Exception as ex:  # the exception class is part of the verdict
        return 10 + EXN.get(type(ex).__name__, 89)
    if isinstance(r, (bool, np.bool_)):
        return 1 if r else 0
    return 99


def impl_equals(da, db, tol):
    """the verdict of a.equals(b) -- which is only a verdict if it is a function of the two values: 98 if the call changed an operand,
    97 if asking again gives another answer (either makes every later comparison of these objects wrong)"""
    a, b = to_py(da), to_py(db)
    s0 = (snapshot(a), snapshot(b))
    c = _equals_code(a, b, tol)
    if (snapshot(a), snapshot(b)) != s0:
        return 98
    if _equals_code(a, b, tol) != c:
        return 97
    return c


def code_str(c):
    return {0: 'False', 1: 'True', 99: 'non-bool', 98: 'changed an operand', 97: 'another answer when asked again'}.get(c, 'raise ' + EXN_INV.get(c - 10, '?'))


# ---- the declarative specification (direct oracle), independent of the order of tests in the code
def wf(d):
    t = d['t']
    if t == 'pose':
        return len(d['num']) == PLEN[d['kind']]
    if t == 'arr':
        return True
    if t == 'vertex':
        return wf(d['pose'])
    if t == 'edge':
        return wf(d['est']) and (d['cls'] != 'Landmark' or (d['off'] is not None and wf(d['off'])))
    return all(wf(e) for e in d['edges']) and all(wf(v) for v in d['vertices'])


def structure(d):
    """everything but the numbers"""
    t = d['t']
    if t == 'pose':
        return ('pose', d['kind'], len(d['num']))
    if t == 'arr':
        return ('arr', tuple(d['shape']))
    if t == 'vertex':
        return ('vertex', d['id'], structure(d['pose']))
    if t == 'edge':
        return ('edge', d['cls'], tuple(d['ids']), structure(d['info']), structure(d['est']),
                structure(d['off']) if d['off'] is not None else None, d['offid'] if d['cls'] == 'Landmark' else None)
    return ('graph', tuple(structure(e) for e in d['edges']), tuple(structure(v) for v in d['vertices']))


def fnorm(a):
    return math.sqrt(sum(float(x) ** 2 for x in a))


def spec_equal(da, db, tol):
    """-> (must_not_raise, expected) with expected in {True, False, None (inside the tolerance band)}"""
    tol = float(tol)
    ok = wf(da) and wf(db)
    if not ok:
        return False, None          # the property speaks about well-formed objects only
    if structure(da) != structure(db):
        return ok, False
    exp = True
    for a, b in zip(arrays_of(da), arrays_of(db)):
        dn = fnorm([x - y for x, y in zip(a, b)])
        na, nb = fnorm(a), fnorm(b)
        if dn >= 2.0 * tol * (max(na, nb) + tol):
            return ok, False
        if not dn <= 0.5 * tol * max(na, tol):
            exp = None
    return ok, exp


MAGS = [Fr(0), Fr(1, 10 ** 12), Fr(1, 10 ** 9), Fr(1, 1000), Fr(1000)]
TOLS = [Fr(1, 10 ** 6), Fr(1, 100)]


def robust(da, c, delta, tol):
    """is the verdict of the numeric test on the perturbed component far from the band edge?"""
    a = array_with(da, c)
    if a is None or delta == 0:
        return True
    ratio = abs(float(delta)) / max(fnorm(a), float(tol))
    return ratio < 0.5 * float(tol) or ratio > 2.0 * float(tol)


def jsonable(d):
    if isinstance(d, dict):
        return {k: jsonable(v) for k, v in d.items()}
    if isinstance(d, (list, tuple)):
        return [jsonable(v) for v in d]
    if isinstance(d, Fr):
        return str(d)
    return d


def unjson(d):
    if isinstance(d, dict):
        r = {k: unjson(v) for k, v in d.items()}
        if 'num' in r:
            r['num'] = [Fr(x) for x in r['num']]
        return r
    if isinstance(d, list):
        return [unjson(v) for v in d]
    return d


def py_expr(d):
    """a Python expression that rebuilds the object (for humans reading a replay)"""
    t = d['t']
    if t == 'pose':
        f = [float(x) for x in d['num']]
        if d['kind'] == 'SE2':
            return 'PoseSE2(%r, %r)' % (f[:2], f[2])
        if d['kind'] == 'SE3':
            return 'PoseSE3(%r, %r)' % (f[:3], f[3:])
        return 'Pose%s(%r)' % (d['kind'], f)
    if t == 'arr':
        f = [float(x) for x in d['num']]
        return repr(f[0]) if not d['shape'] else 'np.array(%r).reshape(%r)' % (f, tuple(d['shape']))
    if t == 'vertex':
        return 'Vertex(%d, %s)' % (d['id'], py_expr(d['pose']))
    if t == 'edge':
        if d['cls'] == 'Landmark':
            return 'EdgeLandmark(%r, %s, %s, offset=%s, offset_id=%r)' % (d['ids'], py_expr(d['info']), py_expr(d['est']),
                                                                         py_expr(d['off']) if d['off'] is not None else 'None', d['offid'])
        return '%s(%r, %s, %s)' % ('EdgeOdometry' if d['cls'] == 'Odometry' else d['cls'], d['ids'], py_expr(d['info']), py_expr(d['est']))
    return 'Graph([%s], [%s])' % (', '.join(py_expr(e) for e in d['edges']), ', '.join(py_expr(v) for v in d['vertices']))



# ---- structured multi-component differences (the property still classifies them unambiguously)
def holders(d):
    """the dicts carrying a `num` list, in component order (same order as arrays_of)"""
    t = d['t']
    if t in ('pose', 'arr'):
        return [d]
    if t == 'vertex':
        return [d['pose']]
    if t == 'edge':
        return [d['info'], d['est']] + ([d['off']] if d['off'] is not None else [])
    out = []
    for e in d['edges']:
        out += holders(e)
    for v in d['vertices']:
        out += holders(v)
    return out


TRANSFORMS = ['neg_all', 'scale2', 'permute', 'neg_pos', 'neg_orientation', 'zero_pos_neg_orientation', 'neg_pos_swap', 'half']


def _split(h):
    """(number of leading position components, has orientation part) of a holder"""
    if h['t'] == 'pose' and h['kind'] == 'SE2' and len(h['num']) == 3:
        return 2, True
    if h['t'] == 'pose' and h['kind'] == 'SE3' and len(h['num']) == 7:
        return 3, True
    return len(h['num']), False


def transform_pair(d, hidx, name):
    """-> (a, b) built from d by changing the holder number hidx (None: every holder) or None if not applicable / no change"""
    a, b = clone(d), clone(d)
    ha, hb = holders(a), holders(b)
    idxs = range(len(ha)) if hidx is None else [hidx]
    changed = False
    for i in idxs:
        x = list(ha[i]['num'])
        npos, has_or = _split(ha[i])
        if name == 'neg_all':
            y = [-v for v in x]
        elif name == 'scale2':
            y = [2 * v for v in x]
        elif name == 'half':
            y = [v / 2 for v in x]
        elif name == 'permute':
            y = x[1:] + x[:1]
        elif name == 'neg_pos':
            if not has_or:
                continue
            y = [-v for v in x[:npos]] + x[npos:]
        elif name == 'neg_orientation':
            if not has_or:
                continue
            y = x[:npos] + [-v for v in x[npos:]]
        elif name == 'zero_pos_neg_orientation':
            if not has_or:
                continue
            x = [Fr(0)] * npos + x[npos:]
            y = x[:npos] + [-v for v in x[npos:]]
            ha[i]['num'] = x
        elif name == 'neg_pos_swap':      # position mirrored, orientation components reversed
            if not has_or:
                continue
            y = [-v for v in x[:npos]] + x[npos:][::-1]
        else:
            raise ValueError(name)
        if y != x:
            changed = True
        hb[i]['num'] = y
    return (a, b) if changed else None


def struct_jobs(tier, rng, stats):
    """pairs (a, b) and (b, a) for every transform of every number array of a set of objects, lifted through
    vertices, edges (information, estimate, offset) and graphs"""
    jobs = []
    n_pairs = 0

    def add_pairs(job, d, whole=True):
        nonlocal n_pairs
        hs = holders(d)
        targets = list(range(len(hs))) + ([None] if whole and len(hs) > 1 else [])
        for hidx in targets:
            for name in TRANSFORMS:
                pr = transform_pair(d, hidx, name)
                if pr is None:
                    continue
                ia = len(job.objs)
                job.objs += [pr[0], pr[1]]
                for tol in TOLS:
                    job.cases += [(ia, ia + 1, 0, Fr(0), tol), (ia + 1, ia, 0, Fr(0), tol)]
                n_pairs += 1
    j = Job('c17_struct_pose', 'pose', [])
    for k in KINDS:
        for sc in (1, 2):
            add_pairs(j, d_pose(k, None, sc))
    jobs.append(j)
    j = Job('c17_struct_vertex', 'vertex', [])
    for k in KINDS:
        for sc in (1, 2):
            add_pairs(j, d_vertex(1, k, sc))
    jobs.append(j)
    shapes = [sh for sh in edge_shapes() if sh[1] == [1, 2] and sh[2] == (2, 2) and sh[5] in (None, 0) and (sh[0] != 'Landmark' or sh[4] is not None)]
    if tier == 'quick':
        # every estimate type on an odometry edge, two non-pose estimates on a user edge, five (estimate, offset) class pairs on a landmark edge
        lm = {('R2', 'SE2'), ('R3', 'SE3'), ('SE3', 'SE3'), ('SE2', 'R2'), ((3,), 'R3')}
        shapes = [sh for sh in shapes if sh[0] == 'Odometry' or (sh[0] == 'CustomA' and sh[3] in ((2,), ()))
                  or (sh[0] == 'Landmark' and sh[5] is None and (sh[3], sh[4]) in lm)]
    nf = 1 if tier == 'quick' else 8
    for k in range(nf):
        j = Job('c17_struct_edge_%d' % k, 'edge', [])
        for sh in shapes[k::nf]:
            add_pairs(j, d_edge(*sh))
        jobs.append(j)
    for f in ((0, 2) if tier == 'quick' else range(3)):
        j = Job('c17_struct_graph_%d' % f, 'graph', [])
        add_pairs(j, d_graph(f, 0, 1))
        jobs.append(j)
    stats['structured_pairs'] = n_pairs
    stats['structured_transforms'] = TRANSFORMS
    return jobs


CAT = {'pose': ('pose Q', 'run_pose', 'pairs_pose'), 'vertex': ('vertex Q', 'run_vertex', 'pairs_vertex'),
       'edge': ('edge Q', 'run_edge', 'pairs_edge'), 'graph': ('graph Q', 'run_graph', 'pairs_graph')}
HEAD = ('From Coq Require Import List ZArith QArith.\nFrom GS Require Import PyBase EqualsModel CorrHash EqCorr.\n'
        'Import ListNotations.\nOpen Scope Q_scope.\n')


class Job:
    """one Coq file: a list of objects of one category and either explicit cases or a pair sweep"""

    def __init__(self, name, cat, objs):
        self.name, self.cat, self.objs = name, cat, objs
        self.cases = []      # (ia, ib, c, delta, tol)
        self.sweep = None    # (lo, n, tol)

    def all_cases(self):
        if self.sweep:
            lo, n, tol = self.sweep
            for ia in range(lo, min(lo + n, len(self.objs))):
                for ib in range(len(self.objs)):
                    yield (ia, ib, 0, Fr(0), tol)
        else:
            yield from self.cases

    def source(self, explicit_block=None):
        ty, runf, pairf = CAT[self.cat]
        s = HEAD + 'Definition objs : list (%s) := [\n%s].\n' % (ty, ';\n'.join(to_coq(o) for o in self.objs))
        if self.sweep:
            lo, n, tol = self.sweep
            codes = '(%s objs %d%%nat %d%%nat %s)' % (pairf, lo, n, q(tol))
        else:
            s += 'Definition cases : list qcase := [\n%s].\n' % ';\n'.join(
                '(%d%%nat, %d%%nat, %d%%nat, %s, %s)' % (ia, ib, c, q(dl), q(tol)) for ia, ib, c, dl, tol in self.cases)
            codes = '(map (%s objs) cases)' % runf
        if explicit_block is None:
            s += 'Eval vm_compute in (%d%%Z :: hashes %d%%nat %s).\n' % (MAGIC, BLOCK, codes)
        else:
            s += 'Eval vm_compute in (%d%%Z :: slice %d%%nat %d%%nat %s).\n' % (MAGIC, explicit_block * BLOCK, BLOCK, codes)
        return s

    def case_descs(self, cs):
        ia, ib, c, dl, tol = cs
        return self.objs[ia], perturb(self.objs[ib], c, dl), tol


def c17_jobs(tier, rng):
    jobs = []
    stats = {}

    def pert_cases(job, idxs, max_per_obj=None):
        n = 0
        for i in idxs:
            o = job.objs[i]
            comps = list(range(ncomp(o)))
            if max_per_obj is not None and len(comps) > max_per_obj:
                comps = sorted(rng.sample(comps, max_per_obj))
            for c in comps:
                for m in MAGS:
                    for tol in TOLS:
                        dl = m * tol
                        if robust(o, c, dl, tol):
                            job.cases.append((i, i, c, dl, tol))
                            # and against the unperturbed object of the same shape in the other direction
                        else:
                            stats['skipped_in_band'] = stats.get('skipped_in_band', 0) + 1
                        n += 1
        return n

    # poses: every shape (incl. three malformed lengths) x scale, all ordered pairs, all perturbations
    objs = [d_pose(k, n, sc) for (k, n) in POSE_SHAPES for sc in (0, 1, 2)]
    j = Job('c17_pose', 'pose', objs)
    for tol in TOLS:
        j.cases += [(a, b, 0, Fr(0), tol) for a in range(len(objs)) for b in range(len(objs))]
    pert_cases(j, range(len(objs)))
    jobs.append(j)
    # vertices
    objs = [d_vertex(i, k, sc) for i in (1, 2) for k in KINDS for sc in (0, 1, 2)]
    j = Job('c17_vertex', 'vertex', objs)
    for tol in TOLS:
        j.cases += [(a, b, 0, Fr(0), tol) for a in range(len(objs)) for b in range(len(objs))]
    pert_cases(j, range(len(objs)))
    jobs.append(j)
    # graphs
    objs = [d_graph(f, v, 1) for f in range(3) for v in range(15)] + [d_graph(f, 0, sc) for f in range(3) for sc in (0, 2)]
    j = Job('c17_graph', 'graph', objs)
    for tol in (TOLS[:1] if tier == 'quick' else TOLS):
        j.cases += [(a, b, 0, Fr(0), tol) for a in range(len(objs)) for b in range(len(objs))]
    jobs.append(j)
    sel = list(range(len(objs)))
    per = 6 if tier == 'quick' else None
    for k, chunk in enumerate([sel[i::6] for i in range(6)]):
        jj = Job('c17_graphp_%d' % k, 'graph', [objs[i] for i in chunk])
        pert_cases(jj, range(len(jj.objs)), per)
        jobs.append(jj)
    # graphs with vertices of very different size: EVERY component of every vertex (the tolerance is relative to that vertex, not to the graph)
    mix = [d_graph(f, v, 1) for f in range(3) for v in (13, 14)]
    for k in range(2):
        jj = Job('c17_graphmix_%d' % k, 'graph', mix[k::2])
        for i, o in enumerate(jj.objs):
            n_e = sum(ncomp(e) for e in o['edges'])
            for c in range(n_e, ncomp(o)):
                for m in MAGS:
                    for tol in (TOLS[:1] if tier == 'quick' else TOLS):
                        if robust(o, c, m * tol, tol):
                            jj.cases.append((i, i, c, m * tol, tol))
        jobs.append(jj)
    # edges: all ordered pairs of shapes (thorough) / of a seeded subset (quick)
    shapes = edge_shapes()
    stats['edge_shapes'] = len(shapes)
    if tier == 'quick':
        # dense core: every estimate type x class (x offset in {SE2, None} x offset_id in {None, 0}) on one ids/info choice,
        # every ids x information.shape on one estimate choice, then a seeded random remainder
        core = [s for s in shapes if s[1] == [1, 2] and s[2] == (2, 2) and s[4] in (None, 'SE2') and s[5] in (None, 0)]
        core += [s for s in shapes if s[3] == 'R2' and s[4] in (None, 'SE2') and s[5] is None and s not in core]
        rest = [s for s in shapes if s not in core]
        sub = core + rng.sample(rest, 25)
    else:
        sub = shapes
    eobjs = [d_edge(*s) for s in sub]
    nfiles = 2 if tier == 'quick' else 32
    step = (len(eobjs) + nfiles - 1) // nfiles
    for k in range(nfiles):
        jj = Job('c17_edgepairs_%02d' % k, 'edge', eobjs)
        jj.sweep = (k * step, step, TOLS[0])
        jobs.append(jj)
    stats['edge_pair_sweep_shapes'] = len(eobjs)
    # edges: single-component perturbations
    if tier == 'quick':
        psel = rng.sample(shapes, 36)
        variants = [(s, sc) for s in psel for sc in (1,)] + [(s, sc) for s in psel[:10] for sc in (0, 2)]
    else:
        extra = rng.sample(shapes, 150)
        variants = [(s, 1) for s in shapes] + [(s, sc) for s in extra for sc in (0, 2)]
    nfiles = 4 if tier == 'quick' else 32
    for k in range(nfiles):
        part = variants[k::nfiles]
        jj = Job('c17_edgep_%02d' % k, 'edge', [d_edge(*s, scale=sc) for s, sc in part])
        pert_cases(jj, range(len(jj.objs)), 5 if tier == 'quick' else None)
        jobs.append(jj)
    jobs += struct_jobs(tier, rng, stats)
    return jobs, stats


def impl_equals_objs(a, b, tol):
    try:
        r = a.equals(b, float(tol))
    except Exception as ex:  # the exception class is part of the verdict
        return 10 + EXN.get(type(ex).__name__, 89)
    if isinstance(r, (bool, np.bool_)):
        return 1 if r else 0
    return 99


def _c17_worker(j):
    """implementation side + direct oracle for one job"""
    out = {'name': j.name, 'cat': j.cat, 'hist': {}, 'oracle_violations': [], 'nontrivial': 0, 'perturbed': 0}
    cases = list(j.all_cases())
    codes = []
    if j.sweep:
        tol = j.sweep[2]
        pyo = [to_py(o) for o in j.objs]       # equals does not mutate its operands (checked at the end of the sweep)
        snap0 = [snapshot(o) for o in pyo]
        st = [structure(o) for o in j.objs]
        wfo = [wf(o) for o in j.objs]
    for cs in cases:
        ia, ib, cc, dl, tol = cs
        if j.sweep:
            c = impl_equals_objs(pyo[ia], pyo[ib], tol)
            if not (wfo[ia] and wfo[ib]):
                must_not_raise, exp = False, None
            elif st[ia] != st[ib]:
                must_not_raise, exp = True, False
            else:
                must_not_raise, exp = spec_equal(j.objs[ia], j.objs[ib], tol)
            da = db = None
        else:
            da, db, tol = j.case_descs(cs)
            c = impl_equals(da, db, tol)
            must_not_raise, exp = spec_equal(da, db, tol)
        codes.append(c)
        out['hist'][code_str(c)] = out['hist'].get(code_str(c), 0) + 1
        bad = None
        if c in (97, 98):
            bad = 'equals %s (the comparison is not a function of the two values: comparing these objects again gives a wrong verdict)' % code_str(c)
        elif c >= 10 and must_not_raise:
            bad = 'equals raised %s for two well-formed objects' % code_str(c)[6:]
        elif c < 10 and exp is not None and c != (1 if exp else 0):
            bad = 'equals returned %s, the specification requires %s' % (code_str(c), exp)
        if bad and len(out['oracle_violations']) < 6:
            if da is None:
                da, db, tol = j.case_descs(cs)
            out['oracle_violations'].append(violation_payload(da, db, tol, c, bad))
        if c < 10:
            out['nontrivial'] += 1
        if dl != 0:
            out['perturbed'] += 1
    if j.sweep:
        changed = [i for i, o in enumerate(pyo) if snapshot(o) != snap0[i]]
        if changed:
            out['oracle_violations'].append({'what': 'after a sweep of equals() calls over %d objects, object %d is no longer what it was: equals changed an operand' % (len(pyo), changed[0]),
                                             'a': jsonable(j.objs[changed[0]]), 'b': jsonable(j.objs[changed[0]]), 'tol': str(j.sweep[2]), 'observed': code_str(98),
                                             'python': 'a = %s  # compared with every other object of the sweep' % py_expr(j.objs[changed[0]])})
    out['structured'] = len(cases) if j.name.startswith('c17_struct_') else 0
    out['codes'] = codes if not j.sweep else None
    out['hashes'] = hashes(codes)
    out['ncases'] = len(cases)
    if cases:
        cs = cases[len(cases) // 2]
        da, db, tol = j.case_descs(cs)
        out['sample'] = {'a': py_expr(da)[:300], 'b': py_expr(db)[:300], 'tol': float(tol), 'perturbed_component': cs[2],
                         'delta': float(cs[3]), 'verdict_model_and_impl': code_str(codes[len(cases) // 2])}
    return out


def c17_run(tier, seed):
    import multiprocessing as mp
    rng = random.Random(seed)
    jobs, stats = c17_jobs(tier, rng)
    res = {'evaluations': 0, 'agree': 0, 'disagreements': [], 'coq_errors': [], 'hist': {}, 'oracle_violations': [],
           'oracle_checked': 0, 'by_category': {}, 'stats': stats, 'samples': [], 'files': len(jobs), 'nontrivial': 0}
    ctx = mp.get_context('fork')
    with ctx.Pool(8) as p:
        ar = p.map_async(_c17_worker, jobs, chunksize=1)
        coq = coq_lists([(j.name, j.source()) for j in jobs], timeout=1500)
        py = ar.get()
    second = []
    for j, o in zip(jobs, py):
        n = o['ncases']
        for k, v in o['hist'].items():
            res['hist'][k] = res['hist'].get(k, 0) + v
        res['oracle_violations'] += o['oracle_violations']
        res['oracle_checked'] += n
        res['nontrivial'] += o['nontrivial']
        bc = res['by_category'].setdefault(j.cat, {'cases': 0, 'perturbed': 0, 'structured': 0})
        bc['cases'] += n
        bc['perturbed'] += o['perturbed']
        bc['structured'] += o['structured']
        res['evaluations'] += n
        if len(res['samples']) < 5 and 'sample' in o and j.name in ('c17_pose', 'c17_struct_pose', 'c17_struct_vertex', 'c17_graphp_0', 'c17_edgep_00', 'c17_struct_edge_0'):
            res['samples'].append(o['sample'])
        out = coq.get(j.name)
        if not isinstance(out, list) or len(out) != 1:
            res['coq_errors'].append({'file': j.name, 'out': out.get('error') if isinstance(out, dict) else str(out)[:500]})
            continue
        hp, hc = o['hashes'], out[0]
        if len(hp) != len(hc):
            res['coq_errors'].append({'file': j.name, 'out': 'number of blocks differs: coq %d python %d' % (len(hc), len(hp))})
            continue
        badblocks = [i for i in range(len(hp)) if hp[i] != hc[i]]
        res['agree'] += n - sum(min(BLOCK, n - b * BLOCK) for b in badblocks)
        for b in badblocks[:2]:
            second.append((j, b))
    second = second[:12]
    if second:
        coq2 = coq_lists([('%s_b%d' % (j.name, b), j.source(explicit_block=b)) for j, b in second])
        for j, b in second:
            out = coq2.get('%s_b%d' % (j.name, b))
            if not isinstance(out, list) or len(out) != 1:
                res['coq_errors'].append({'file': j.name, 'out': str(out)[:500]})
                continue
            cases = list(itertools.islice(j.all_cases(), b * BLOCK, (b + 1) * BLOCK))
            for cs, m in zip(cases, out[0]):
                da, db, tol = j.case_descs(cs)
                c = impl_equals(da, db, tol)
                if m != c and len(res['disagreements']) < 20:
                    res['disagreements'].append({'file': j.name, 'model': code_str(m), 'impl': code_str(c),
                                                 'payload': violation_payload(da, db, tol, c, 'model (current source) says %s, implementation says %s' % (code_str(m), code_str(c)))})
    return res


def violation_payload(da, db, tol, code, what):
    return {'what': what, 'a': jsonable(da), 'b': jsonable(db), 'tol': str(tol), 'observed': code_str(code),
            'python': 'a = %s\nb = %s\na.equals(b, %r)' % (py_expr(da), py_expr(db), float(tol))}


def c17_eval(p):
    """-> (observed code, what is wrong or None) for a stored pair {a, b, tol}"""
    da, db, tol = unjson(p['a']), unjson(p['b']), Fr(p['tol'])
    c = impl_equals(da, db, tol)
    must_not_raise, exp = spec_equal(da, db, tol)
    bad = None
    if c in (97, 98):
        bad = 'equals %s (the comparison is not a function of the two values: comparing these objects again gives a wrong verdict)' % code_str(c)
    elif c >= 10 and must_not_raise:
        bad = 'equals raised %s for two well-formed objects' % code_str(c)[6:]
    elif c < 10 and exp is not None and c != (1 if exp else 0):
        bad = 'equals returned %s, the specification requires %s' % (code_str(c), exp)
    return c, bad, exp, must_not_raise


def c17_replay(p):
    c, bad, exp, must_not_raise = c17_eval(p)
    print(p.get('python', ''))
    print('observed now: %s    specification: %s%s' % (code_str(c), exp if exp is not None else 'unspecified (inside the band or not well-formed)',
                                                        ', must not raise' if must_not_raise else ''))
    return 1 if bad else 0


def c17_corpus(path):
    """minimised past failures, run first: -> (number run, list of violation payloads)"""
    if not os.path.exists(path):
        return 0, []
    out = []
    items = json.load(open(path))
    for p in items:
        c, bad, _, _ = c17_eval(p)
        if bad:
            da, db = unjson(p['a']), unjson(p['b'])
            out.append(violation_payload(da, db, Fr(p['tol']), c, bad))
    return len(items), out


def c18_corpus(path):
    if not os.path.exists(path):
        return 0, []
    out = []
    items = json.load(open(path))
    for p in items:
        cs = tuple(p['case'])
        code, post = c18_impl(cs)
        v = {1: 'K', 2: 'A', 3: 'X'}.get(code, 'O')
        sp = c18_spec(cs)
        if v != sp or post:
            out.append({'case': list(cs), 'what': 'corpus case: expected %s, observed %s%s' % (sp, v, (' then ' + post) if post else ''),
                        'expected': sp, 'observed': v})
    return len(items), out


# =============================================================================================
#                                         C18
# =============================================================================================
class K0(BaseEdge):
    """tests/edge_types.py BaseEdgeForTests"""

    def is_valid(self):
        if not self._is_valid():
            return False
        return True

    def calc_error(self):
        return np.array([1.0, 2.0])


class K1(BaseEdge):
    """a user edge on exactly one PoseR2 vertex with a (2, 2) information matrix"""

    def is_valid(self):
        if not self._is_valid():
            return False
        return len(self.vertices) == 1 and isinstance(self.vertices[0].pose, PoseR2) and self.information.shape == (2, 2)

    def calc_error(self):
        return np.array([1.0, 2.0])


def mkpose(kind, j=0):
    s = 0.1 * j
    if kind == 'R2':
        return PoseR2([0.5 + s, -1.25])
    if kind == 'R3':
        return PoseR3([0.5 + s, -1.25, 2.0])
    if kind == 'SE2':
        return PoseSE2([0.5 + s, -1.25], 0.3 + s)
    return PoseSE3([0.5 + s, -1.25, 2.0], [0.1, 0.2, 0.3, math.sqrt(1 - 0.14)])


def mk_other(z, which):
    if z < 4:
        return mkpose(KINDS[z], 5)
    if which == 'est':
        return {4: np.array([1.0, 2.0]), 5: np.array([1.0, 2.0, 3.0]), 6: 1.5, 7: None}[z]
    return {4: None, 5: np.array([1.0, 2.0, 3.0])}[z]


def c18_cases_for(cls, n, k1):
    for k2 in (range(4) if n >= 1 else [0]):
        for k3 in (range(4) if n >= 2 else [0]):
            for est in range(8):
                for off in (range(6) if cls == 1 else [0]):
                    for r in range(7):
                        for c in range(7):
                            for ab in range(n + 2):
                                yield (cls, n, k1, k2, k3, est, off, r, c, ab)


def c18_build(cs):
    cls, n, k1, k2, k3, est, off, r, c, ab = cs
    count = n + 1
    kinds = [KINDS[k1], KINDS[k2], KINDS[k3]][:count]
    ids = [99 if j + 1 == ab else 10 + j for j in range(count)]
    vs = [Vertex(10 + j, mkpose(kinds[j], j)) for j in range(count)][::-1]
    info = np.eye(r + 1, c + 1)
    e = mk_other(est, 'est')
    if cls == 0:
        edge = EdgeOdometry(ids, info, e)
    elif cls == 1:
        edge = EdgeLandmark(ids, info, e, offset=mk_other(off, 'off'), offset_id=0)
    elif cls == 2:
        edge = K0(ids, info, e)
    else:
        edge = K1(ids, info, e)
    return [edge], vs


def exn_small(ex):
    return {'KeyError': 1, 'AssertionError': 2}.get(type(ex).__name__, 3)


def c18_impl(cs):
    """-> (code, post) where post is None or the exception raised by calc_chi2/optimize after acceptance"""
    try:
        es, vs = c18_build(cs)          # a constructor that refuses its arguments is a refusal too (the model only knows Graph(...) refusing)
        g = Graph(es, vs)
    except Exception as ex:
        return exn_small(ex), None
    bound = es[0].vertices
    pack = 0
    for v in reversed(bound):
        pack = pack * 64 + (v.gradient_index + 16 * (v.id - 10))
    post = None
    if cs[0] in (0, 1):
        try:
            g.calc_chi2()
            g.optimize(max_iter=1, verbose=False)
        except Exception as ex:
            post = '%s: %s' % (type(ex).__name__, ex)
    return 4 * (1 + pack), post


LM_PAIRS = {('SE2', 'R2'), ('SE3', 'R3'), ('R2', 'R2'), ('R3', 'R3')}


def c18_spec(cs):
    """the declarative specification: 'K' KeyError, 'A' AssertionError, 'O' accepted"""
    cls, n, k1, k2, k3, est, off, r, c, ab = cs
    if ab != 0:
        return 'K'
    count = n + 1
    kinds = [KINDS[k1], KINDS[k2], KINDS[k3]][:count]
    shape = (r + 1, c + 1)
    estk = KINDS[est] if est < 4 else None
    offk = KINDS[off] if off < 4 else None
    if cls == 0:
        ok = count == 2 and kinds[0] == kinds[1] and estk == kinds[0] and shape == (PDIM[kinds[0]],) * 2
    elif cls == 1:
        ok = count == 2 and (kinds[0], kinds[1]) in LM_PAIRS and offk == kinds[0] and estk == kinds[1] and shape == (PDIM[kinds[1]],) * 2
    elif cls == 2:
        ok = True
    else:
        ok = count == 1 and kinds[0] == 'R2' and shape == (2, 2)
    return 'O' if ok else 'A'


def c18_case_text(cs):
    cls, n, k1, k2, k3, est, off, r, c, ab = cs
    count = n + 1
    kinds = [KINDS[k1], KINDS[k2], KINDS[k3]][:count]
    et = (KINDS + ['ndarray(2,)', 'ndarray(3,)', 'float', 'None'])[est]
    ot = (KINDS + ['None', 'ndarray(3,)'])[off]
    ids = [99 if j + 1 == ab else 10 + j for j in range(count)]
    return {'edge_class': ['EdgeOdometry', 'EdgeLandmark', 'custom K0 (BaseEdgeForTests)', 'custom K1'][cls],
            'vertex_ids': ids, 'vertices (list order)': [(10 + j, kinds[j]) for j in range(count)][::-1],
            'estimate': et, 'offset': ot if cls == 1 else '-', 'information.shape': (r + 1, c + 1)}


def _c18_worker(args):
    key, sample = args
    cases = sample if sample is not None else list(c18_cases_for(*key))
    codes, dist, bad, posts, acc_lib = [], {}, [], [], 0
    for cs in cases:
        code, post = c18_impl(cs)
        codes.append(code)
        v = {1: 'K', 2: 'A', 3: 'X'}.get(code, 'O')
        cname = ['odometry', 'landmark', 'custom0', 'custom1'][cs[0]]
        dist[cname + ':' + v] = dist.get(cname + ':' + v, 0) + 1
        sp = c18_spec(cs)
        if v != sp and len(bad) < 10:
            what = {('A', 'O'): 'an inconsistent edge was silently accepted', ('O', 'A'): 'a consistent edge was rejected',
                    ('K', 'O'): 'an edge naming an unknown vertex id was accepted'}.get((sp, v), 'expected %s, observed %s' % (sp, v))
            bad.append({'case': list(cs), 'what': what, 'expected': sp, 'observed': v})
        if v == 'O' and cs[0] in (0, 1):
            acc_lib += 1
            # binding by id
            if post is not None and len(posts) < 10:
                posts.append({'case': list(cs), 'what': 'accepted edge raised later: ' + post, 'expected': sp, 'observed': 'O then ' + post})
    return key, hashes(codes), len(cases), dist, bad, posts, acc_lib, (codes if sample is not None else None)


C18_HEAD = ('From Coq Require Import List ZArith.\nFrom GS Require Import PyBase ValidModel CorrHash ValidCases.\n'
            'Import ListNotations.\nOpen Scope Z_scope.\n')


def c18_source(key, sample, explicit_block=None):
    if sample is None:
        codes = '(map run_case (cases_for %d %d %d))' % key
        s = C18_HEAD
    else:
        s = C18_HEAD + 'Definition cases : list case := [\n%s].\n' % ';\n'.join('(%s)' % ', '.join(str(x) for x in cs) for cs in sample)
        codes = '(map run_case cases)'
    if explicit_block is None:
        return s + 'Eval vm_compute in (%d :: hashes %d%%nat %s).\n' % (MAGIC, BLOCK, codes)
    return s + 'Eval vm_compute in (%d :: slice %d%%nat %d%%nat %s).\n' % (MAGIC, explicit_block * BLOCK, BLOCK, codes)


def c18_quick_sample(rng, total=24000):
    """all consistent-by-spec cases and their one-feature neighbours, plus a seeded random sample"""
    keys = [(cls, n, k1) for cls in range(4) for n in range(3) for k1 in range(4)]
    out = {k: [] for k in keys}
    seen = set()

    def add(cs):
        if cs in seen:
            return
        cls, n, k1, k2, k3, est, off, r, c, ab = cs
        if n < 1 and k2 or n < 2 and k3 or cls != 1 and off or ab > n + 1:
            return
        seen.add(cs)
        out[(cls, n, k1)].append(cs)
    radix = [4, 3, 4, 4, 4, 8, 6, 7, 7, 4]
    # the accepted region of the two library classes and everything at distance one from it
    for cls in (0, 1):
        for k1 in range(4):
            for k2 in range(4):
                for est in range(4):
                    for off in (range(4) if cls == 1 else [0]):
                        for d in (1, 2, 5):
                            base = (cls, 1, k1, k2, 0, est, off, d, d, 0)
                            if c18_spec(base) == 'O':
                                add(base)
                                for pos in range(10):
                                    for vv in range(radix[pos]):
                                        nb = list(base)
                                        nb[pos] = vv
                                        add(tuple(nb))
    # the full cross product of the TYPES (both endpoints, estimate, offset) for the two library classes on two
    # vertices, with every square information shape a pose class can ask for: this is where a too-permissive
    # is_valid shows (each type combination is met with the shape that fits it)
    for cls in (0, 1):
        for k1 in range(4):
            for k2 in range(4):
                for est in range(8):
                    for off in (range(6) if cls == 1 else [0]):
                        for d in (1, 2, 5):
                            add((cls, 1, k1, k2, 0, est, off, d, d, 0))
    # random, two thirds with all ids known
    allkeys = list(keys)
    while len(seen) < total:
        cls, n, k1 = rng.choice(allkeys)
        cs = (cls, n, k1, rng.randrange(4) if n >= 1 else 0, rng.randrange(4) if n >= 2 else 0, rng.randrange(8),
              rng.randrange(6) if cls == 1 else 0, rng.randrange(7), rng.randrange(7), 0 if rng.random() < 0.67 else rng.randrange(1, n + 2))
        add(cs)
    return {k: v for k, v in out.items() if v}


def c18_run(tier, seed, pool=None):
    import multiprocessing as mp
    rng = random.Random(seed)
    res = {'evaluations': 0, 'agree': 0, 'disagreements': [], 'coq_errors': [], 'dist': {}, 'oracle_violations': [],
           'accepted_library_edges_run': 0, 'files': 0, 'exhaustive': tier == 'thorough', 'samples': []}
    if tier == 'thorough':
        work = [((cls, n, k1), None) for cls in range(4) for n in range(3) for k1 in range(4)]
    else:
        work = sorted(c18_quick_sample(rng).items())
    res['files'] = len(work)
    srcs = [('c18_%d_%d_%d' % k, c18_source(k, s)) for k, s in work]
    # the implementation side runs in worker processes while Coq runs in the background threads of coq_eval_files
    ctx = mp.get_context('fork')
    with ctx.Pool(8) as p:
        ar = p.map_async(_c18_worker, work, chunksize=1)
        coq = coq_lists(srcs, timeout=1500)
        py = ar.get()
    second = []
    for key, hp, ncases, dist, bad, posts, acc_lib, codes in py:
        res['evaluations'] += ncases
        res['accepted_library_edges_run'] += acc_lib
        for k, v in dist.items():
            res['dist'][k] = res['dist'].get(k, 0) + v
        res['oracle_violations'] += bad + posts
        out = coq.get('c18_%d_%d_%d' % key)
        if not isinstance(out, list) or len(out) != 1:
            res['coq_errors'].append({'file': key, 'out': out.get('error') if isinstance(out, dict) else str(out)[:500]})
            continue
        hc = out[0]
        if len(hc) != len(hp):
            res['coq_errors'].append({'file': key, 'out': 'number of blocks differs: coq %d python %d' % (len(hc), len(hp))})
            continue
        badblocks = [i for i in range(len(hp)) if hp[i] != hc[i]]
        res['agree'] += ncases - sum(min(BLOCK, ncases - b * BLOCK) for b in badblocks)
        for b in badblocks[:2]:
            second.append((key, b))
    wk = dict(work)
    if second:
        coq2 = coq_lists([('c18_%d_%d_%d' % k + '_b%d' % b, c18_source(k, wk[k], explicit_block=b)) for k, b in second[:12]])
        for k, b in second[:12]:
            out = coq2.get('c18_%d_%d_%d' % k + '_b%d' % b)
            if not isinstance(out, list) or len(out) != 1:
                res['coq_errors'].append({'file': k, 'out': str(out)[:500]})
                continue
            cases = wk[k] if wk[k] is not None else list(c18_cases_for(*k))
            for i, m in enumerate(out[0]):
                idx = b * BLOCK + i
                if idx >= len(cases):
                    break
                code, _ = c18_impl(cases[idx])
                if code != m:
                    res['disagreements'].append({'case': list(cases[idx]), 'text': c18_case_text(cases[idx]),
                                                 'model': c18_code_str(m), 'impl': c18_code_str(code)})
                    if len(res['disagreements']) > 20:
                        break
    # samples
    for cs in [(0, 1, 2, 2, 0, 2, 0, 2, 2, 0), (1, 1, 2, 1, 0, 1, 2, 2, 2, 0), (1, 1, 3, 1, 0, 1, 3, 2, 2, 2)]:
        code, post = c18_impl(cs)
        res['samples'].append(dict(c18_case_text(cs), implementation=c18_code_str(code), specification=c18_spec(cs)))
    return res


def c18_code_str(c):
    if c in (1, 2, 3):
        return {1: 'KeyError', 2: 'AssertionError', 3: 'other exception'}[c]
    p = c // 4 - 1
    slots = []
    while p:
        s = p % 64
        slots.append({'id': 10 + s // 16, 'gradient_index': s % 16})
        p //= 64
    return 'accepted, bound to %s' % slots


# ---- binding stream: explicit graphs with permuted vertex lists, duplicate ids, several edges
def c18_binding_graphs(rng, n):
    out = []
    # every consistent single-edge graph first (built, like all edges of this stream, with the required arguments only: offset_id stays None), vertices
    # listed in either order: each of them must be accepted -- whatever the draw
    for k in range(4):
        for rev in (False, True):
            vs = [(3, k), (8, k)]
            out.append(([(0, [3, 8], (PDIM[KINDS[k]],) * 2, k, 0)], list(reversed(vs)) if rev else vs))
    for (ka, kb) in sorted(LM_PAIRS):
        for rev in (False, True):
            vs = [(3, KINDS.index(ka)), (8, KINDS.index(kb))]
            out.append(([(1, [3, 8], (PDIM[kb],) * 2, KINDS.index(kb), KINDS.index(ka))], list(reversed(vs)) if rev else vs))
    for _ in range(max(0, n - len(out))):
        m = rng.randint(1, 6)
        ids_pool = list(range(0, rng.choice([3, 6, 9])))
        vs = [(rng.choice(ids_pool), rng.randrange(4)) for _ in range(m)]
        known = [v[0] for v in vs]
        es = []
        for _ in range(rng.randint(0, 4)):
            t = rng.random()
            if t < 0.6:
                ids = [rng.choice(known if rng.random() < 0.93 else ids_pool + [50]) for _ in range(rng.randint(1, 3))]
                es.append((2, ids, (rng.randint(1, 3), rng.randint(1, 3)), rng.randrange(8), 0))
            elif t < 0.8:
                a, b = rng.choice(known), rng.choice(known)
                lastk = {i: k for i, k in vs}
                k = lastk[a]
                sh = (PDIM[KINDS[k]],) * 2
                ek = k
                if rng.random() < 0.2:      # an inconsistent library edge anywhere in the list (wrong information shape / measurement type)
                    c_ = rng.random()
                    if c_ < 0.35:
                        sh = (sh[0], sh[1] + 1)
                    elif c_ < 0.6:
                        sh = rng.choice([(sh[0],), (sh[0],) * 3, (), (sh[0], 1), (1, sh[0])])      # information that is not an n x n matrix: a vector of length n, n x n x n, 0-d, a column, a row
                    else:
                        ek = (k + 1) % 4
                es.append((0, [a, b], sh, ek, 0))
            else:
                a, b = rng.choice(known), rng.choice(known)
                lastk = {i: k for i, k in vs}
                sh = (PDIM[KINDS[lastk[b]]],) * 2
                if rng.random() < 0.2:
                    sh = (sh[0] + 1, sh[1]) if rng.random() < 0.6 else rng.choice([(sh[0],), (sh[0],) * 3, (), (sh[0], 1), (1, sh[0])])
                es.append((1, [a, b], sh, lastk[b], lastk[a]))
        out.append((es, vs))
    return out


def binding_to_coq(g):
    es, vs = g
    est = ['(OPose PR2)', '(OPose PR3)', '(OPose PSE2)', '(OPose PSE3)', '(OArr [2%nat])', '(OArr [3%nat])', 'OFloat', 'ONone']
    off = ['(OPose PR2)', '(OPose PR3)', '(OPose PSE2)', '(OPose PSE3)', 'ONone', '(OArr [3%nat])']
    cl = ['Odometry', 'Landmark', '(Custom 0)', '(Custom 1)']
    pk = ['PR2', 'PR3', 'PSE2', 'PSE3']
    e_s = '; '.join('mkedge %s [%s] [%s] %s %s' % (cl[c], '; '.join(map(str, ids)), '; '.join('%d%%nat' % x for x in sh), est[e], off[o] if c == 1 else 'ONone')
                    for c, ids, sh, e, o in es)
    v_s = '; '.join('mkvertex %d %s' % (i, pk[k]) for i, k in vs)
    return '([%s], [%s])' % (e_s, v_s)


def binding_impl(g):
    es, vs = g
    V = [Vertex(i, mkpose(KINDS[k], j)) for j, (i, k) in enumerate(vs)]
    E = []
    ctor_exc = None
    for c, ids, sh, e, o in es:
        info = np.eye(sh[0], sh[1]) if len(sh) == 2 else np.ones(tuple(sh))
        try:
            if c == 0:
                E.append(EdgeOdometry(list(ids), info, mk_other(e, 'est')))
            elif c == 1:
                E.append(EdgeLandmark(list(ids), info, mk_other(e, 'est'), offset=mk_other(o, 'off')))
            else:
                E.append(K0(list(ids), info, mk_other(e, 'est')))
        except Exception as ex:  # noqa  (a constructor that refuses its arguments: judged below like a refusal by Graph(...))
            ctor_exc = ex
            break
    # the declarative outcome for a multi-edge construction: unknown id anywhere -> KeyError (binding comes first); else any inconsistent
    # edge, at ANY position of the list -> AssertionError; else accepted
    lastk = {i: k for i, k in vs}
    if any(i not in lastk for _, ids, _, _, _ in es for i in ids):
        want = 'K'
    else:
        def edge_ok(c, ids, sh, e, o):
            kinds = [KINDS[lastk[i]] for i in ids]
            estk = KINDS[e] if e < 4 else None
            offk = KINDS[o] if o < 4 else None
            if c == 0:
                return len(ids) == 2 and kinds[0] == kinds[1] and estk == kinds[0] and tuple(sh) == (PDIM[kinds[0]],) * 2
            if c == 1:
                return len(ids) == 2 and (kinds[0], kinds[1]) in LM_PAIRS and offk == kinds[0] and estk == kinds[1] and tuple(sh) == (PDIM[kinds[1]],) * 2
            return True
        want = 'O' if all(edge_ok(*e) for e in es) else 'A'
    # some edge objects arrive ALREADY BOUND (reused from an earlier graph, or constructed with vertices=[...]) to foreign Vertex objects that
    # carry the same ids with other pose classes: construction must re-bind every edge to the vertices of THIS graph and judge validity there
    if (sum(i for i, _ in vs) + len(es)) % 3 == 0:
        for ed in E:
            try:
                ed.vertices = [Vertex(i, mkpose(KINDS[(lastk.get(i, 0) + (1 if len(E) % 2 else 0)) % 4], 7)) for i in ed.vertex_ids]
            except Exception:  # noqa
                pass
    try:
        if ctor_exc is not None:
            raise ctor_exc
        Graph(E, V)
    except Exception as ex:
        code = exn_small(ex)
        got = {1: 'K', 2: 'A'}.get(code, 'X')
        return [777, code], (None if got == want else 'construction raised %s, the specification says %s' % (type(ex).__name__, {'K': 'KeyError', 'A': 'AssertionError', 'O': 'accepted'}[want]))
    flat = [777, 0]
    bad = None
    if want != 'O':
        bad = 'construction was accepted, the specification says %s (an inconsistent edge or an unknown id somewhere in the edge list)' % {'K': 'KeyError', 'A': 'AssertionError'}[want]
    for ed in E:
        for v, i in zip(ed.vertices, ed.vertex_ids):
            flat += [v.id, v.gradient_index]
            cands = [w for w in V if w.id == i]
            if not cands:
                bad = bad or 'an edge naming the unknown id %r was accepted and is bound to a vertex that is not in the graph' % (i,)
                continue
            last = cands[-1]
            if v.id != i or v is not last:
                bad = 'slot naming id %r is bound to vertex id %r (not the last vertex carrying that id)' % (i, v.id)
        if len(ed.vertices) != len(ed.vertex_ids):
            bad = 'len(vertices) != len(vertex_ids)'
    return flat, bad


def c18_binding_run(tier, seed):
    rng = random.Random(seed + 1)
    graphs = c18_binding_graphs(rng, 400 if tier == 'quick' else 6000)
    res = {'graphs': len(graphs), 'agree': 0, 'disagreements': [], 'coq_errors': [], 'oracle_violations': [], 'accepted': 0, 'duplicate_id_graphs': 0}
    chunks = [graphs[i:i + 400] for i in range(0, len(graphs), 400)]
    srcs = []
    for k, ch in enumerate(chunks):
        srcs.append(('c18_bind_%02d' % k, C18_HEAD + 'Definition gs : list (list edge * list vertex) := [\n%s].\n' % ';\n'.join(binding_to_coq(g) for g in ch)
                     + 'Eval vm_compute in (%d :: flat_map run_graph gs).\n' % MAGIC))
    coq = coq_lists(srcs)
    for k, ch in enumerate(chunks):
        out = coq.get('c18_bind_%02d' % k)
        if not isinstance(out, list) or len(out) != 1:
            res['coq_errors'].append({'file': 'c18_bind_%02d' % k, 'out': out.get('error') if isinstance(out, dict) else str(out)[:500]})
            continue
        # split the model's flat output at the 777 markers
        model, cur = [], None
        for z in out[0]:
            if z == 777:
                if cur is not None:
                    model.append(cur)
                cur = [777]
            else:
                cur.append(z)
        if cur is not None:
            model.append(cur)
        for g, m in zip(ch, model):
            flat, bad = binding_impl(g)
            if len(set(i for i, _ in g[1])) < len(g[1]):
                res['duplicate_id_graphs'] += 1
            if flat[1] == 0:
                res['accepted'] += 1
            if bad:
                res['oracle_violations'].append({'graph': g, 'what': bad})
            if flat == m:
                res['agree'] += 1
            elif len(res['disagreements']) < 10:
                res['disagreements'].append({'graph': g, 'model': m, 'impl': flat})
        if len(model) != len(ch):
            res['coq_errors'].append({'file': 'c18_bind_%02d' % k, 'out': 'model returned %d graphs for %d' % (len(model), len(ch))})
    return res


def c18_g2o_entry():
    """the same rejection through the .g2o entry point: an edge line whose information block is the upper triangle of a LARGER matrix than the
    edge admits (or of a smaller one) must not produce a graph.  -> (cases run, violations)"""
    import tempfile
    ok_lines = {
        'EDGE_SE2': ('VERTEX_SE2 1 0 0 0\nVERTEX_SE2 2 1 0 0\n', 'EDGE_SE2 1 2 1 0 0', 3),
        'EDGE_SE3:QUAT': ('VERTEX_SE3:QUAT 1 0 0 0 0 0 0 1\nVERTEX_SE3:QUAT 2 1 0 0 0 0 0 1\n', 'EDGE_SE3:QUAT 1 2 1 0 0 0 0 0 1', 6),
        'EDGE_SE2_XY': ('VERTEX_SE2 1 0 0 0\nVERTEX_XY 2 1 1\n', 'EDGE_SE2_XY 1 2 1 1', 2),
        'EDGE_SE3_TRACKXYZ': ('PARAMS_SE3OFFSET 0 0 0 0 0 0 0 1\nVERTEX_SE3:QUAT 1 0 0 0 0 0 0 1\nVERTEX_TRACKXYZ 2 1 1 1\n', 'EDGE_SE3_TRACKXYZ 1 2 0 1 1 1', 3)}
    n_run, bad = 0, []
    for tag, (head, stem, n) in ok_lines.items():
        for k in range(1, 8):
            tri = ' '.join('1' if i == j else '0' for i in range(k) for j in range(i, k))
            text = head + stem + ' ' + tri + '\n'
            pth = os.path.join(tempfile.gettempdir(), 'verif_c18_%d.g2o' % os.getpid())
            try:
                with open(pth, 'w') as fh:
                    fh.write(text)
                n_run += 1
                try:
                    g = Graph.from_g2o(pth)
                    accepted = len(g._edges) == 1
                except Exception:  # noqa
                    accepted = False
                if accepted != (k == n):
                    bad.append({'what': '%s line with the upper triangle of a %dx%d information matrix (the edge admits %dx%d) was %s by Graph.from_g2o'
                                        % (tag, k, k, n, n, 'accepted' if accepted else 'rejected'), 'text': text})
            finally:
                if os.path.exists(pth):
                    os.remove(pth)
    # binding BY ID through the .g2o entry point, for ids of every size (neighbouring integers beyond 2^53 are distinct ids although they are not
    # distinct doubles): three vertices listed in reverse order, the edge names two of them -> bound to exactly those; the edge names an id that
    # is absent while its neighbours are present -> no graph
    vtx = {'EDGE_SE2': ('VERTEX_SE2 %d %d 0 0', 'VERTEX_SE2 %d %d 0 0'), 'EDGE_SE3:QUAT': ('VERTEX_SE3:QUAT %d %d 0 0 0 0 0 1', 'VERTEX_SE3:QUAT %d %d 0 0 0 0 0 1'),
           'EDGE_SE2_XY': ('VERTEX_SE2 %d %d 0 0', 'VERTEX_XY %d %d 1'), 'EDGE_SE3_TRACKXYZ': ('VERTEX_SE3:QUAT %d %d 0 0 0 0 0 1', 'VERTEX_TRACKXYZ %d %d 1 1')}
    B = 2 ** 53
    for tag, (head, stem, n) in ok_lines.items():
        tri = ' '.join('1' if i == j else '0' for i in range(n) for j in range(i, n))
        pre = 'PARAMS_SE3OFFSET 0 0 0 0 0 0 0 1\n' if tag == 'EDGE_SE3_TRACKXYZ' else ''
        rest = stem.split(' ', 3)[3]
        for (a, b, extra, present) in [(1, 2, 3, True), (B, B + 1, B + 2, True), (B + 1, B + 2, B, True), (B + 3, B + 1, B + 2, True), (-B - 1, -B, -B - 2, True),
                                       (2 ** 62 + 1, 2 ** 62 + 3, 2 ** 62 + 2, True), (B + 1, B + 4, B + 2, True),
                                       (B + 1, B + 2, B, False), (B, B + 3, B + 4, False), (-B - 1, 5, -B, False), (4, 2 ** 62 + 1, 2 ** 62, False)]:
            # present=False: the vertex `a` the edge names is NOT in the file (its neighbour `extra` is)
            va, vb = vtx[tag]
            lines = [vb % (b, 20)] + [(va if present else va) % (extra, 30)] + ([va % (a, 10)] if present else [])
            text = pre + '\n'.join(lines) + '\n' + '%s %d %d %s %s\n' % (tag, a, b, rest, tri)
            pth = os.path.join(tempfile.gettempdir(), 'verif_c18_%d.g2o' % os.getpid())
            try:
                with open(pth, 'w') as fh:
                    fh.write(text)
                n_run += 1
                try:
                    g = Graph.from_g2o(pth)
                    e = g._edges[0]
                    got = [(int(v.id), float(np.asarray(v.pose)[0])) for v in e.vertices] if len(g._edges) == 1 and e.vertices is not None else None
                except Exception:  # noqa
                    got = 'raised'
                if present and got != [(a, 10.0), (b, 20.0)]:
                    bad.append({'what': '%s line naming the vertices %d and %d (file lists %d, %d, %d): the edge is bound to %r, expected the vertices at x=10 and x=20'
                                        % (tag, a, b, b, extra, a, got), 'text': text})
                elif not present and got != 'raised':
                    bad.append({'what': '%s line naming the vertex %d that the file does not contain (it contains %d and %d): a graph was built, edge bound to %r'
                                        % (tag, a, b, extra, got), 'text': text})
            finally:
                if os.path.exists(pth):
                    os.remove(pth)
    return n_run, bad


def c18_replay(p):
    if 'graph' in p:
        flat, bad = binding_impl((tuple(map(tuple, p['graph'][0])), [tuple(v) for v in p['graph'][1]]))
        print('graph (edges: class, vertex_ids, information.shape, estimate, offset; vertices: id, pose class):', p['graph'])
        print('implementation:', flat, bad)
        return 1 if bad else 0
    cs = tuple(p['case'])
    code, post = c18_impl(cs)
    sp = c18_spec(cs)
    print(json.dumps(c18_case_text(cs), default=str))
    print('implementation: %s%s    specification: %s' % (c18_code_str(code), (' then ' + post) if post else '',
                                                       {'K': 'KeyError', 'A': 'AssertionError (inconsistent edge)', 'O': 'accepted'}[sp]))
    v = {1: 'K', 2: 'A', 3: 'X'}.get(code, 'O')
    return 1 if (v != sp or post) else 0


# =============================================================================================
#      the class structure the hand-written models assume (checked by reflection on every run)
# =============================================================================================
def _defined_in(cls, name):
    """the class of cls.__mro__ whose __dict__ provides attribute `name`"""
    for k in cls.__mro__:
        if name in k.__dict__:
            return k
    return None


def class_structure(prop):
    """-> list of (assumption text, holds?) : which class defines which method, as EqualsModel.v / ValidModel.v
    take for granted (method resolution is not translated from the source)"""
    from graphslam.pose.base_pose import BasePose
    out = []

    def chk(text, ok):
        out.append((text, bool(ok)))
    poses = [PoseR2, PoseR3, PoseSE2, PoseSE3]
    for K in poses:
        chk('%s.__mro__ is (%s, BasePose, ndarray, object)' % (K.__name__, K.__name__), K.__mro__[:3] == (K, BasePose, np.ndarray))
    chk('no pose class is a subclass of another pose class', not any(issubclass(a, b) for a in poses for b in poses if a is not b))
    chk('COMPACT_DIMENSIONALITY of (R2, R3, SE2, SE3) is (2, 3, 3, 6)', [getattr(K, 'COMPACT_DIMENSIONALITY', None) for K in poses] == [2, 3, 3, 6])
    if prop == 'C17':
        for K in poses:
            chk('%s.equals is BasePose.equals (not overridden)' % K.__name__, _defined_in(K, 'equals') is BasePose and K.equals is BasePose.equals)
            chk('%s does not define __eq__ / __ne__ of its own' % K.__name__, _defined_in(K, '__eq__') in (np.ndarray, object) and _defined_in(K, '__ne__') in (np.ndarray, object))
            p = mkpose(K.__name__[4:])
            chk('%s.to_array() returns the stored numbers' % K.__name__, type(p.to_array()) is np.ndarray and np.array_equal(p.to_array(), np.asarray(p)))
        chk('Vertex.equals is defined in Vertex', _defined_in(Vertex, 'equals') is Vertex and Vertex.__mro__ == (Vertex, object))
        chk('Graph.equals is defined in Graph', _defined_in(Graph, 'equals') is Graph and Graph.__mro__ == (Graph, object))
        chk('BaseEdge.equals is defined in BaseEdge', _defined_in(BaseEdge, 'equals') is BaseEdge)
        chk('EdgeOdometry.equals is BaseEdge.equals (not overridden)', _defined_in(EdgeOdometry, 'equals') is BaseEdge and EdgeOdometry.equals is BaseEdge.equals)
        chk('EdgeLandmark.equals is defined in EdgeLandmark', _defined_in(EdgeLandmark, 'equals') is EdgeLandmark)
        chk('EdgeOdometry / EdgeLandmark derive directly from BaseEdge', EdgeOdometry.__mro__[:2] == (EdgeOdometry, BaseEdge) and EdgeLandmark.__mro__[:2] == (EdgeLandmark, BaseEdge))
        chk('a user subclass of BaseEdge inherits BaseEdge.equals', CustomA.equals is BaseEdge.equals and CustomB.equals is BaseEdge.equals)
    else:
        chk('BaseEdge._is_valid is defined in BaseEdge', _defined_in(BaseEdge, '_is_valid') is BaseEdge)
        for E in (EdgeOdometry, EdgeLandmark):
            chk('%s.is_valid is defined in %s' % (E.__name__, E.__name__), _defined_in(E, 'is_valid') is E)
            chk('%s._is_valid is BaseEdge._is_valid (not overridden)' % E.__name__, _defined_in(E, '_is_valid') is BaseEdge and E._is_valid is BaseEdge._is_valid)
            chk('%s derives directly from BaseEdge' % E.__name__, E.__mro__[:2] == (E, BaseEdge))
            chk('%s.__init__ / vertices / vertex_ids are not properties' % E.__name__, not any(isinstance(getattr(E, a, None), property) for a in ('vertices', 'vertex_ids', 'information', 'estimate')))
        chk('BaseEdge.is_valid is abstract', getattr(BaseEdge.is_valid, '__isabstractmethod__', False))
        chk('Graph.__init__ and Graph._initialize are defined in Graph', _defined_in(Graph, '__init__') is Graph and _defined_in(Graph, '_initialize') is Graph and Graph.__mro__ == (Graph, object))
        chk('Vertex.__init__ is defined in Vertex; id / pose are plain attributes', _defined_in(Vertex, '__init__') is Vertex and not any(isinstance(getattr(Vertex, a, None), property) for a in ('id', 'pose', 'gradient_index')))
        chk('a user subclass of BaseEdge inherits BaseEdge._is_valid', K0._is_valid is BaseEdge._is_valid and K1._is_valid is BaseEdge._is_valid)
    return out
