"""corr_optloop.py -- correspondence check 4.3 and direct oracle of property C12.

(1) Scripted chi^2 sequences on the REAL optimizer.  A real `Graph` with two R^2 vertices (an anchor
    and a mover) and four test-only `BaseEdge` subclasses makes every Gauss-Newton update move the
    mover by dx = (1, 0) exactly, while the graph's chi^2 at the state "mover at (k, 0)" is a table
    value a_k chosen by the harness (finite, zero, negative, inf, nan, ...).  The chi^2 values the
    implementation actually computes at the successive states are read back with
    `Graph.calc_chi2()` and fed as the table to the Gallina model `OptLoop.optimize` instantiated
    with primitive floats (lib/OptLoopF.v), evaluated inside Coq.  The model must predict, BIT FOR
    BIT: raised (max_iter = 0), converged, num_iterations, len(iteration_results), which entries
    carry chi2 / rel_diff and their bit patterns, is_complete_iteration(), initial_chi2, final_chi2,
    the number of updates applied (position of the mover) and the printed progress lines.
(2) Direct oracle on the implementation only (no Coq): the statement of C12 itself, on the scripted
    graphs and on real R^2 / R^3 / SE(2) / SE(3) graphs built from EdgeOdometry / EdgeLandmark:
    report vs. `calc_chi2()` recomputed on deep copies at every iteration state, every split
    k1+...+km = n of an n-iteration run, verbose on/off.
"""
import contextlib
import copy
import io
import itertools
import math
import multiprocessing
import random
import re
import struct
import sys
import warnings

import numpy as np

import vlib

sys.path.insert(0, vlib.REPO)
from graphslam.graph import Graph  # noqa: E402
from graphslam.vertex import Vertex  # noqa: E402
from graphslam.edge.base_edge import BaseEdge  # noqa: E402
from graphslam.edge.edge_odometry import EdgeOdometry  # noqa: E402
from graphslam.edge.edge_landmark import EdgeLandmark  # noqa: E402
from graphslam.pose.r2 import PoseR2  # noqa: E402
from graphslam.pose.r3 import PoseR3  # noqa: E402
from graphslam.pose.se2 import PoseSE2  # noqa: E402
from graphslam.pose.se3 import PoseSE3  # noqa: E402

TOLS = [0.0, 1e-12, 1e-8, 1e-4, 1e-2, 1e-1]
NMAX = 30
TABLE_LEN = NMAX + 3
EPS = np.finfo(float).eps
INF = float('inf')
NAN = float('nan')


def bits(x):
    """bit pattern of a double as an int; every NaN is 'nan'; None stays None"""
    if x is None:
        return None
    x = float(x)
    if x != x:
        return 'nan'
    return struct.unpack('<q', struct.pack('<d', x))[0]


def unbits(b):
    if b is None:
        return None
    if b == 'nan':
        return NAN
    return struct.unpack('<d', struct.pack('<q', b))[0]


# ----------------------------------------------------------------------------- test-only edges
class PushEdge(BaseEdge):
    """unary on the mover: e = (-1, 0), J = I, Omega = I  ->  gradient (-1, 0), Hessian I, dx = (1, 0); chi2 = 1"""

    def is_valid(self):
        return True

    def calc_error(self):
        return np.array([-1.0, 0.0])

    def calc_jacobians(self):
        return [np.eye(2)]


class CancelEdge(BaseEdge):
    """no vertex: e = (1), Omega = (-1)  ->  chi2 = -1, cancels PushEdge's chi2 exactly (1 + -1 = 0)"""

    def is_valid(self):
        return True

    def calc_error(self):
        return np.array([1.0])

    def calc_jacobians(self):
        return []


class HoldEdge(BaseEdge):
    """unary on the anchor: e = 0, J = I, Omega = I  ->  chi2 0, gradient 0, Hessian I (keeps H regular
    when the anchor is not fixed); dx = 0"""

    def is_valid(self):
        return True

    def calc_error(self):
        return np.array([0.0, 0.0])

    def calc_jacobians(self):
        return [np.eye(2)]


class TableEdge(BaseEdge):
    """no vertex (hence no gradient/Hessian contribution, so inf/nan do not leak into the solve):
    e = (1), Omega = (a_k) where k is the x coordinate of the mover  ->  chi2 = a_k"""

    def __init__(self, table, probe, x0=0.0):
        self._table = [float(t) for t in table]
        self._probe = probe
        self._x0 = float(x0)
        super().__init__([], None, None)

    def is_valid(self):
        return True

    def calc_error(self):
        return np.array([1.0])

    def calc_jacobians(self):
        return []

    @property
    def information(self):
        k = int(round(float(self._probe.pose[0]) - self._x0))
        return np.array([[self._table[k]]])

    @information.setter
    def information(self, value):
        pass


ANCHOR0 = (3.0, 4.0)
X0S = (0.0, 2.0 ** 30)      # starting abscissa of the mover, alternating between the scripted tables


def build_scripted(table, x0=0.0):
    """x0: where the mover starts (0 or 2^30: the report must not depend on how far from the origin the vertices are)"""
    anchor = Vertex(7, PoseR2([ANCHOR0[0], ANCHOR0[1]]))
    mover = Vertex(9, PoseR2([float(x0), 0.0]))
    edges = [PushEdge([9], np.eye(2), None), CancelEdge([], np.array([[-1.0]]), None),
             HoldEdge([7], np.eye(2), None), TableEdge(table, mover, x0)]
    g = Graph(edges, [anchor, mover])
    g._verif_x0 = float(x0)
    return g


@contextlib.contextmanager
def quiet_numpy():
    with np.errstate(all='ignore'), warnings.catch_warnings():
        warnings.simplefilter('ignore')
        yield


def readback(graph, n):
    """chi^2 the implementation computes at the states reached by 0..n-1 updates (calc_chi2 on a deep copy)"""
    g = copy.deepcopy(graph)
    out = []
    with quiet_numpy():
        for _ in range(n):
            out.append(float(g.calc_chi2()))
            g._vertices[1].pose += np.array([1.0, 0.0])
    return out


def call_optimize(g, tol, max_iter, verbose, ffp):
    """runs the real optimize on g (mutated); returns (result or None, exception name or None, stdout)"""
    buf = io.StringIO()
    res, exc = None, None
    with contextlib.redirect_stdout(buf), quiet_numpy():
        try:
            res = g.optimize(tol=tol, max_iter=max_iter, fix_first_pose=ffp, verbose=verbose)
        except Exception as ex:  # noqa: BLE001 -- the kind of exception is part of the observation
            exc = type(ex).__name__
    return res, exc, buf.getvalue()


def report_dict(res):
    return {'converged': bool(res.converged), 'num_iterations': res.num_iterations,
            'initial': bits(res.initial_chi2), 'final': bits(res.final_chi2),
            'iters': [[bool(it.is_complete_iteration()), bits(it.chi2), bits(it.rel_diff)] for it in res.iteration_results]}


EMPTY_REPORT = {'converged': False, 'num_iterations': None, 'initial': None, 'final': None, 'iters': []}


def number_lines(text):
    return [l for l in text.splitlines() if l.strip() and (l.strip()[0].isdigit())]


def fmt_line(i, c, r):
    if r is None:
        return "{:9d} {:20.4f}".format(i, c)
    return "{:9d} {:20.4f} {:18.6f}".format(i, c, r)


def lines_of_report(d):
    """the progress lines as a function of the report (Python mirror of OptLoop.verbose_lines)"""
    out = [fmt_line(0, unbits(d['initial']), None)]
    for i, (_, c, r) in enumerate(d['iters']):
        if c is None:
            break
        out.append(fmt_line(i + 1, unbits(c), unbits(r)))
    return out


def scripted_outcome(graph, tol, max_iter, verbose, ffp):
    g = copy.deepcopy(graph)
    # PRE-HISTORY on the same Graph object that must not show in the report (the model is evaluated as for a fresh graph):
    #   1: chi2 queried at another state, then the state put back (a cached chi2 would now be stale)
    #   2: an earlier optimizer call, then the state and the fixed flag put back
    hist = (max_iter + (1 if verbose else 0)) % 3
    x0 = getattr(graph, '_verif_x0', 0.0)
    with quiet_numpy(), contextlib.redirect_stdout(io.StringIO()):
        if hist == 1:
            g._vertices[1].pose = PoseR2([x0 + 5.0, 0.0])
            g.calc_chi2()
            g._vertices[1].pose = PoseR2([x0, 0.0])
        elif hist == 2:
            try:
                g.optimize(tol=0.0, max_iter=2, fix_first_pose=ffp, verbose=False)
            except Exception:  # noqa: BLE001
                pass
            g._vertices[1].pose = PoseR2([x0, 0.0])
            g._vertices[0].pose = PoseR2([ANCHOR0[0], ANCHOR0[1]])
            g._vertices[0].fixed = False
    res, exc, out = call_optimize(g, tol, max_iter, verbose, ffp)
    d = dict(report_dict(res)) if res is not None else dict(EMPTY_REPORT)
    d['raised'] = exc
    a, m = g._vertices[0], g._vertices[1]
    x = float(m.pose[0]) - x0
    d['updates'] = int(round(x)) if x == x and abs(x) < 1e6 else -1
    d['pos_ok'] = bool(x == d['updates'] and float(m.pose[1]) == 0.0 and float(a.pose[0]) == ANCHOR0[0] and float(a.pose[1]) == ANCHOR0[1])
    d['lines'] = number_lines(out)
    d['stdout_empty'] = (out == '')
    with quiet_numpy():
        d['calc_chi2_after'] = bits(copy.deepcopy(g).calc_chi2())
    return d


def _scripted_task(args):
    table, tol, ffp, x0 = args
    graph = build_scripted(table, x0)
    return [scripted_outcome(graph, tol, n, vb, ffp) for n in range(NMAX + 1) for vb in (True, False)]


# ----------------------------------------------------------------------------- tables
def _pad(xs, fill=None):
    xs = list(xs)
    while len(xs) < TABLE_LEN:
        xs.append(xs[-1] if fill is None else fill)
    return [float(v) for v in xs[:TABLE_LEN]]


def gen_table(rng, shape):
    n = TABLE_LEN
    if shape == 'monotone_geometric':
        a, r = rng.choice([1.0, 1000.0, 12345.678, 2.0 ** 20]), rng.choice([0.5, 0.9, 0.99, 0.1])
        return _pad(a * r ** k for k in range(n))
    if shape == 'monotone_to_limit':       # relative decrease shrinks geometrically: crosses every tol at a different k
        lim, a, r = rng.choice([1.0, 37.5, 1e6, 1e-3]), rng.choice([10.0, 1.0, 1e3]), rng.choice([0.1, 0.03, 0.3, 0.5])
        return _pad(lim * (1.0 + a * r ** k) for k in range(n))
    if shape == 'plateau':
        p, v = rng.randint(1, 12), rng.choice([5.0, 0.25, 1e-9, 7e12])
        return _pad([v * (1.0 + 0.5 * (p - k)) for k in range(p)] + [v] * (n - p))
    if shape == 'rise_then_fall':
        p = rng.randint(1, 8)
        up = [2.0 * 1.7 ** k for k in range(p + 1)]
        return _pad(up + [up[-1] * 0.6 ** (k + 1) for k in range(n - p - 1)])
    if shape == 'equal':
        return _pad([rng.choice([1.0, 0.1, 1e300, 5e-324, 2.0 ** -52, 123456.789])] * n)
    if shape == 'zeros':
        p = rng.choice([0, 0, 1, 2, 5])
        return _pad([3.0 * (p - k) for k in range(p)] + [0.0] * (n - p))
    if shape == 'inf':
        t = [10.0 * 0.8 ** k for k in range(n)]
        for _ in range(rng.randint(1, 3)):
            t[rng.randint(0, 12)] = INF
        if rng.random() < 0.3:
            p = rng.randint(1, 6)
            t[p] = t[p + 1] = INF          # inf -> inf: inf - inf = nan
        return _pad(t)
    if shape == 'nan':
        t = [10.0 * 0.8 ** k for k in range(n)]
        for _ in range(rng.randint(1, 3)):
            t[rng.randint(0, 12)] = NAN
        return _pad(t)
    if shape == 'tiny_around_tol':          # successive ratios sit exactly at / one ulp around a tolerance
        t = [rng.choice([1.0, 8.0, 1000.0, 0.3])]
        for k in range(n - 1):
            tol = rng.choice(TOLS[1:])
            d = rng.choice([0.0, 1.0, -1.0, 2.0, -2.0, 1e3, -1e3]) * 2.0 ** -52
            step = t[-1] * tol * (1.0 + d)
            nxt = t[-1] - step
            if rng.random() < 0.25:
                nxt = math.nextafter(nxt, rng.choice([-INF, INF]))
            if rng.random() < 0.1:
                nxt = t[-1] * 0.5          # a real decrease now and then, so that long runs exist
            t.append(nxt)
        return _pad(t)
    if shape == 'oscillating':
        base = rng.choice([4.0, 100.0])
        return _pad(base * (0.9 ** k) * (1.5 if k % 2 else 1.0) for k in range(n))
    if shape == 'negative':                 # indefinite information: chi2 < 0, denominator chi2_prev + eps <= 0
        c = rng.choice(['eps', 'below', 'cross'])
        if c == 'eps':
            return _pad([1.0, -EPS, -EPS, -2 * EPS, -1.0, -2.0, -2.0, 0.0, -0.0, 1.0] + [0.5] * n)
        if c == 'below':
            return _pad(-1.0 - 0.5 * k for k in range(n))
        return _pad(3.0 - k * rng.choice([1.0, 0.5]) for k in range(n))
    if shape == 'huge_subnormal':
        c = rng.choice(['huge', 'sub', 'mixed'])
        if c == 'huge':
            return _pad([1.7e308, -1.7e308, 1.7e308, 1e308, 9e307, 9e307] + [8e307 * 0.999 ** k for k in range(n)])
        if c == 'sub':
            return _pad([5e-324 * (40 - k) for k in range(n)])
        return _pad([1e-310, 1e300, 1e-310, 0.0, 5e-324, 5e-324, 0.0] + [1e-320] * n)
    if shape == 'random':
        t = [math.exp(rng.gauss(2, 2))]
        for _ in range(n - 1):
            t.append(t[-1] * math.exp(rng.gauss(-0.05, rng.choice([1e-6, 1e-3, 0.3]))))
        return _pad(t)
    raise ValueError(shape)


SHAPES = ['monotone_geometric', 'monotone_to_limit', 'plateau', 'rise_then_fall', 'equal', 'zeros', 'inf', 'nan',
          'tiny_around_tol', 'oscillating', 'negative', 'huge_subnormal', 'random']


# ----------------------------------------------------------------------------- Coq side
def coq_source(table):
    src = ['From Coq Require Import ZArith List Floats.PrimFloat.',
           'From GS Require Import ExprF OptLoop OptLoopF.',
           'Import ListNotations.', 'Open Scope float_scope.',
           'Definition tab : list float := [%s].' % '; '.join(vlib.coqf(t) for t in table)]
    for tol in TOLS:
        src.append('Eval vm_compute in dump_grid_u tab %s %d.' % (vlib.coqf(tol), NMAX))
    return '\n'.join(src) + '\n'


U_OFFSET = 1 << 60
UINT = re.compile(r'(0x[0-9a-fA-F]+|\d+)%uint63')


def parse_uints(text):
    """integers of `list int` outputs (printed as n%uint63), shifted back by 2^60 (lib/OptLoopF.v:to_u)"""
    return [int(t, 0) - U_OFFSET for t in UINT.findall(text)]


class Cursor:
    def __init__(self, ints):
        self.v = ints
        self.i = 0

    def take(self):
        x = self.v[self.i]
        self.i += 1
        return x

    def flt(self):
        m, e = self.take(), self.take()
        return vlib.undump(m, e)

    def opt(self):
        return self.flt() if self.take() == 1 else None


def decode_model(ints):
    """list of model outcomes in the order of dump_grid: for tol, for n = 0..NMAX, verbose True then False"""
    c = Cursor(ints)
    out = []
    while c.i < len(ints):
        if c.take() != vlib.MAGIC:
            raise ValueError('bad dump at %d' % c.i)
        d = {'updates': c.take(), 'raised': 'IndexError' if c.take() else None, 'converged': bool(c.take())}
        n = c.take()
        d['num_iterations'] = None if n < 0 else n
        d['initial'] = bits(c.opt())
        d['final'] = bits(c.opt())
        d['iters'] = []
        for _ in range(c.take()):
            comp = bool(c.take())
            d['iters'].append([comp, bits(c.opt()), bits(c.opt())])
        d['lines'] = []
        for _ in range(c.take()):
            i = c.take()
            d['lines'].append(fmt_line(i, c.flt(), c.opt()))
        out.append(d)
    return out


CMP_KEYS = ['raised', 'converged', 'num_iterations', 'initial', 'final', 'iters', 'updates', 'lines']


# ----------------------------------------------------------------------------- direct oracle: the statement itself
def rel(p, x):
    return (np.float64(p) - np.float64(x)) / (np.float64(p) + EPS)


def stop_rule(p, x, tol):
    return bool(np.float64(x) <= np.float64(p) and rel(p, x) < np.float64(tol))


def expected_from_sequence(c, tol, max_iter):
    """What C12 says the report must be, given the chi^2 values c[k] of the states after k updates
    (max_iter >= 1)."""
    with quiet_numpy():
        K = None
        for k in range(1, max_iter):
            if stop_rule(c[k - 1], c[k], tol):
                K = k
                break
        if K is not None:
            conv, num, entries = True, K, K + 1
        else:
            conv, num, entries = stop_rule(c[max_iter - 1], c[max_iter], tol), max_iter, max_iter
        iters = [[True, bits(c[k + 1]), bits(-rel(c[k], c[k + 1]))] for k in range(num)]
        iters += [[False, None, None]] * (entries - num)
    return {'raised': None, 'converged': conv, 'num_iterations': num, 'initial': bits(c[0]), 'final': bits(c[num]),
            'iters': iters, 'updates': num}


def statement_failures(exp, got, keys=('raised', 'converged', 'num_iterations', 'initial', 'final', 'iters', 'updates')):
    return [k for k in keys if exp[k] != got[k]]


# ----------------------------------------------------------------------------- (1) scripted correspondence
def run_scripted(seed, tier, extra_tables=None, shapes=None, per_shape=None):
    rng = random.Random(seed)
    per_shape = per_shape or (2 if tier == 'quick' else 40)
    tables = []
    for sh in (shapes or SHAPES):
        for _ in range(per_shape):
            tables.append((sh, gen_table(rng, sh)))
    for t in (extra_tables or []):
        tables.insert(0, ('corpus', _pad(t)))
    # what the implementation computes at each state
    actual = []
    prescribed_exact = 0
    for sh, t in tables:
        a = readback(build_scripted(t, X0S[len(actual) % len(X0S)]), TABLE_LEN)
        prescribed_exact += sum(1 for x, y in zip(a, t) if bits(x) == bits(y))
        actual.append(a)
    # implementation runs, in worker processes, while Coq evaluates the model
    tasks = [(ti, li, ffp) for ti in range(len(tables)) for li in range(len(TOLS)) for ffp in (True, False)]
    ctx = multiprocessing.get_context('fork')
    pool = ctx.Pool(16)
    try:
        async_res = pool.map_async(_scripted_task, [(tables[ti][1], TOLS[li], ffp, X0S[ti % len(X0S)]) for ti, li, ffp in tasks], chunksize=1)
        coq = vlib.coq_eval_files([('c12_tab_%03d' % ti, coq_source(actual[ti])) for ti in range(len(tables))], timeout=600)
        impl = async_res.get(timeout=3000)
    finally:
        pool.close()
        pool.join()
    impl_by = {tasks[j]: impl[j] for j in range(len(tasks))}
    res = {'tables': len(tables), 'model_cases': 0, 'impl_runs': 0, 'agree': 0, 'disagreements': [], 'coq_errors': [],
           'oracle_failures': [], 'prescribed_exact_entries': prescribed_exact, 'table_entries': len(tables) * TABLE_LEN,
           'hist': {'shape': {}, 'tol': {}, 'max_iter': {}, 'outcome': {}, 'special': {}}, 'samples': []}
    H = res['hist']
    for ti, (sh, t) in enumerate(tables):
        name = 'c12_tab_%03d' % ti
        rc, out = coq[name]
        if rc != 0:
            res['coq_errors'].append({'file': name, 'out': out[-800:]})
            continue
        try:
            model = decode_model(parse_uints(out))
        except Exception as ex:  # noqa: BLE001
            res['coq_errors'].append({'file': name, 'out': 'undecodable: %r' % (ex,)})
            continue
        if len(model) != len(TOLS) * (NMAX + 1) * 2:
            res['coq_errors'].append({'file': name, 'out': 'expected %d results, got %d' % (len(TOLS) * (NMAX + 1) * 2, len(model))})
            continue
        H['shape'][sh] = H['shape'].get(sh, 0) + 1
        for li, tol in enumerate(TOLS):
            for n in range(NMAX + 1):
                for vi, vb in enumerate((True, False)):
                    mo = model[(li * (NMAX + 1) + n) * 2 + vi]
                    res['model_cases'] += 1
                    for ffp in (True, False):
                        got = impl_by[(ti, li, ffp)][n * 2 + vi]
                        res['impl_runs'] += 1
                        case = {'table': [float(x).hex() for x in actual[ti]], 'shape': sh, 'tol': tol, 'max_iter': n,
                                'verbose': vb, 'fix_first_pose': ffp, 'x0': X0S[ti % len(X0S)]}
                        diff = [k for k in CMP_KEYS if mo[k] != got[k]]
                        if not got['pos_ok']:
                            diff.append('vertex positions are not (k,0)/(anchor unchanged)')
                        if not vb and not got['stdout_empty']:
                            diff.append('stdout not empty with verbose=False')
                        if n > 0 and got['final'] != got['calc_chi2_after']:
                            diff.append('final_chi2 != calc_chi2() of the returned graph')
                        # the direct oracle (statement of the property, computed from the read-back sequence)
                        if n > 0:
                            exp = expected_from_sequence(actual[ti], tol, n)
                            sf = statement_failures(exp, got)
                            if got['final'] != got['calc_chi2_after']:
                                sf.append('final_vs_calc_chi2')
                            if vb and got['raised'] is None and got['lines'] != lines_of_report(got):
                                sf.append('printed lines are not the report values')
                            if not vb and not got['stdout_empty']:
                                sf.append('verbose=False printed something')
                            if sf:
                                res['oracle_failures'].append(dict(case, fields=sf, expected=exp,
                                                                   got={k: got[k] for k in exp}))
                        if diff:
                            res['disagreements'].append(dict(case, fields=diff, model={k: mo[k] for k in CMP_KEYS},
                                                             impl={k: got[k] for k in CMP_KEYS}))
                        else:
                            res['agree'] += 1
                    H['tol'][repr(tol)] = H['tol'].get(repr(tol), 0) + 1
                    H['max_iter'][n] = H['max_iter'].get(n, 0) + 1
                    oc = 'raised' if mo['raised'] else ('early_stop' if mo['converged'] and mo['num_iterations'] < n else
                                                       ('converged_at_max_iter' if mo['converged'] else 'not_converged'))
                    H['outcome'][oc] = H['outcome'].get(oc, 0) + 1
                    vals = [unbits(b) for e in mo['iters'] for b in e[1:] if b is not None]
                    for tag, pred in (('nan_in_report', lambda v: v != v), ('inf_in_report', lambda v: abs(v) == INF),
                                      ('zero_rel_diff', lambda v: v == 0.0)):
                        if any(pred(v) for v in vals):
                            H['special'][tag] = H['special'].get(tag, 0) + 1
                    if len(res['samples']) < 4 and oc == 'early_stop' and n > 3 and vb and len(mo['iters']) > 2 \
                            and all(sm['shape'] != sh for sm in res['samples']):
                        res['samples'].append({'shape': sh, 'tol': tol, 'max_iter': n, 'chi2_table_head': actual[ti][:6],
                                               'model_and_impl': {'converged': mo['converged'], 'num_iterations': mo['num_iterations'],
                                                                  'entries': len(mo['iters']), 'updates': mo['updates'],
                                                                  'last_lines': mo['lines'][-2:]}})
    return res


# ----------------------------------------------------------------------------- (2) real graphs
def _rand_quat(rng, scale):
    ax = [rng.gauss(0, 1) for _ in range(3)]
    nrm = math.sqrt(sum(a * a for a in ax)) or 1.0
    ang = rng.gauss(0, scale)
    s = math.sin(ang / 2) / nrm
    return [ax[0] * s, ax[1] * s, ax[2] * s, math.cos(ang / 2)]


def _spd(rng, n, spread):
    a = np.array([[rng.gauss(0, 1) for _ in range(n)] for _ in range(n)])
    return a @ a.T + spread * np.eye(n)


def gen_real_spec(rng, kind, noise, init_noise, nv, landmarks):
    """A JSON-able description of a small graph; `make_real` turns it into a Graph."""
    def pose(scale_t, scale_r):
        if kind == 'R2':
            return [rng.gauss(0, scale_t) for _ in range(2)]
        if kind == 'R3':
            return [rng.gauss(0, scale_t) for _ in range(3)]
        if kind == 'SE2':
            return [rng.gauss(0, scale_t), rng.gauss(0, scale_t), rng.gauss(0, scale_r)]
        q = _rand_quat(rng, scale_r)
        # quaternions as they come out of files and logs: unit to the last bit, written with 4 or 6 decimals (|q| off by ~5e-5 / 5e-7),
        # or slightly scaled -- the library never promises to renormalise, and whatever it does the report must describe the returned graph
        if qstyle == 'decimals4':
            q = [round(x, 4) for x in q]
        elif qstyle == 'decimals6':
            q = [round(x, 6) for x in q]
        elif qstyle == 'scaled':
            f_ = 1.0 + rng.choice([-1, 1]) * 10.0 ** rng.uniform(-5, -2)
            q = [x * f_ for x in q]
        return [rng.gauss(0, scale_t) for _ in range(3)] + q
    qstyle = rng.choice(['unit', 'unit', 'decimals4', 'decimals6', 'scaled']) if kind == 'SE3' else 'unit'
    dim = {'R2': 2, 'R3': 3, 'SE2': 3, 'SE3': 6}[kind]
    pdim = {'R2': 2, 'R3': 3, 'SE2': 2, 'SE3': 3}[kind]
    spec = {'kind': kind, 'vertices': [], 'edges': []}
    for i in range(nv):
        spec['vertices'].append({'id': 10 + 3 * i, 'type': kind, 'pose': pose(3.0 + init_noise, 0.4 + init_noise)})
    pairs = [(i, i + 1) for i in range(nv - 1)] + [(rng.randrange(nv), rng.randrange(nv)) for _ in range(max(1, nv // 2))]
    for a, b in pairs:
        if a == b:
            continue
        spec['edges'].append({'type': 'odom', 'ids': [10 + 3 * a, 10 + 3 * b], 'info': _spd(rng, dim, 0.5).tolist(),
                              'estimate': pose(1.0 + noise, 0.3 + noise)})
    for j in range(landmarks):
        lid = 1000 + j
        spec['vertices'].append({'id': lid, 'type': 'R%d' % pdim, 'pose': [rng.gauss(0, 4.0) for _ in range(pdim)]})
        for a in rng.sample(range(nv), min(nv, 2)):
            spec['edges'].append({'type': 'landmark', 'ids': [10 + 3 * a, lid], 'info': _spd(rng, pdim, 0.5).tolist(),
                                  'estimate': [rng.gauss(0, 3.0) for _ in range(pdim)]})
    return spec


def _mk_pose(t, vals):
    if t == 'R2':
        return PoseR2(list(vals))
    if t == 'R3':
        return PoseR3(list(vals))
    if t == 'SE2':
        return PoseSE2(list(vals[:2]), vals[2])
    return PoseSE3(list(vals[:3]), list(vals[3:]))


def make_real(spec):
    kind = spec['kind']
    vs = [Vertex(v['id'], _mk_pose(v['type'], v['pose'])) for v in spec['vertices']]
    es = []
    for e in spec['edges']:
        info = np.array(e['info'], dtype=np.float64)
        if e['type'] == 'odom':
            es.append(EdgeOdometry(list(e['ids']), info, _mk_pose(kind, e['estimate'])))
        else:
            pk = 'R2' if kind in ('R2', 'SE2') else 'R3'
            off = {'R2': lambda: PoseR2([0.0, 0.0]), 'R3': lambda: PoseR3([0.0, 0.0, 0.0]),
                   'SE2': lambda: PoseSE2([0.0, 0.0], 0.0), 'SE3': lambda: PoseSE3([0.0, 0.0, 0.0], [0.0, 0.0, 0.0, 1.0])}[kind]()
            es.append(EdgeLandmark(list(e['ids']), info, _mk_pose(pk, e['estimate']), off, offset_id=0))
    return Graph(es, vs)


def poses_bits(g):
    return [np.asarray(v.pose, dtype=np.float64).tobytes().hex() for v in g._vertices]


def chi2_bits_of(g):
    with quiet_numpy():
        return bits(copy.deepcopy(g).calc_chi2())


def compositions(n):
    for mask in range(1 << (n - 1)):
        parts, cur = [], 1
        for b in range(n - 1):
            if mask >> b & 1:
                parts.append(cur)
                cur = 1
            else:
                cur += 1
        parts.append(cur)
        yield parts


def check_real(spec, n, ffp, tols):
    """the direct oracle on one real graph; returns (number of elementary checks, list of failures)"""
    fails = []
    checks = 0
    base = make_real(spec)

    def fail(what, **kw):
        fails.append(dict(kw, what=what, spec=spec, n=n, fix_first_pose=ffp))

    # states after k updates: optimize(max_iter=k, tol=0) on fresh deep copies
    states, c = [], []
    for k in range(n + 1):
        g = copy.deepcopy(base)
        if k > 0:
            r, exc, _ = call_optimize(g, 0.0, k, False, ffp)
            if exc is not None:
                return checks, fails          # e.g. a singular system raising: outside this property
            if r.num_iterations != k or len(r.iteration_results) != k:
                # an early stop with tol = 0 needs chi2_prev + eps <= 0; with chi2 >= 0 it contradicts the documented rule
                seen = [unbits(bits(r.initial_chi2))] + [unbits(bits(it.chi2)) for it in r.iteration_results if it.chi2 is not None]
                if all(x >= 0.0 for x in seen):
                    fail('run with tol=0 stopped before max_iter although every chi2 is >= 0', tol=0.0, max_iter=k,
                         got=report_dict(r))
                return checks, fails
        states.append(g)
        c.append(unbits(chi2_bits_of(g)))
    finite = all(x == x and abs(x) != INF for x in c)
    # (a) report of a single run vs. chi2 recomputed at every state; stopping rule for several tol
    for tol in tols:
        for m in range(1, n + 1):
            g = copy.deepcopy(base)
            r, exc, out = call_optimize(g, tol, m, False, ffp)
            checks += 1
            if exc is not None:
                fail('optimize raised %s' % exc, tol=tol, max_iter=m)
                continue
            got = report_dict(r)
            exp = expected_from_sequence(c, tol, m)
            got['raised'] = None
            got['updates'] = exp['updates'] if poses_bits(g) == poses_bits(states[exp['updates']]) else -1
            sf = statement_failures(exp, got)
            if got['final'] != chi2_bits_of(g):
                sf.append('final_chi2 != calc_chi2() of returned graph')
            if sf:
                fail('report differs from chi2 recomputed at the iteration states / documented stopping rule',
                     tol=tol, max_iter=m, fields=sf, expected=exp, got=got)
    # (c) verbose True / False
    for tol in tols[:2]:
        g1, g2 = copy.deepcopy(base), copy.deepcopy(base)
        r1, e1, o1 = call_optimize(g1, tol, n, True, ffp)
        r2, e2, o2 = call_optimize(g2, tol, n, False, ffp)
        checks += 1
        if e1 != e2 or (r1 is not None and r2 is not None and report_dict(r1) != report_dict(r2)) or poses_bits(g1) != poses_bits(g2):
            fail('verbose=True and verbose=False give different results', tol=tol, max_iter=n)
        if o2 != '':
            fail('verbose=False printed something', tol=tol, max_iter=n)
        if r1 is not None:
            exp_lines = [fmt_line(0, r1.initial_chi2, None)] + [fmt_line(i + 1, it.chi2, it.rel_diff)
                                                                for i, it in enumerate(r1.iteration_results) if it.chi2 is not None]
            if number_lines(o1) != exp_lines:
                fail('printed lines are not the report values', tol=tol, max_iter=n, printed=number_lines(o1), expected=exp_lines)
    # (b) every split of the n-iteration run, tol = 0
    g = copy.deepcopy(base)
    r, exc, _ = call_optimize(g, 0.0, n, False, ffp)
    if exc is None:
        single = report_dict(r)
        single_poses = poses_bits(g)
        for parts in compositions(n):
            if len(parts) == 1:
                continue
            g = copy.deepcopy(base)
            seq_iters, ok, finals, initials = [], True, [], []
            for p in parts:
                rp, ep, _ = call_optimize(g, 0.0, p, False, ffp)
                if ep is not None:
                    ok = False
                    break
                d = report_dict(rp)
                seq_iters += d['iters']
                finals.append(d['final'])
                initials.append(d['initial'])
            checks += 1
            if not ok:
                fail('a piece of a split run raised', parts=parts)
                continue
            problems = []
            if poses_bits(g) != single_poses:
                problems.append('poses')
            if seq_iters != single['iters']:
                problems.append('chi2/rel_diff sequence')
            if initials[0] != single['initial'] or finals[-1] != single['final'] or initials[1:] != finals[:-1]:
                problems.append('initial/final chi2 chaining')
            if problems:
                fail('split run differs from the single run (hidden state)', parts=parts, fields=problems,
                     single=single, split_iters=seq_iters, split_initials=initials, split_finals=finals)
    if not finite:
        beh = 'non-finite chi2 (singular system)'
    elif all(c[k + 1] <= c[k] for k in range(n)):
        beh = 'monotone decreasing'
    elif all(c[k + 1] <= c[k] * (1 + 1e-9) for k in range(n)):
        beh = 'increase at rounding level only'
    elif c[n] > c[0]:
        beh = 'diverging (final chi2 > initial)'
    else:
        beh = 'chi2 rises by more than rounding at some iteration'
    return checks, fails, {'behaviour': beh, 'chi2': c}


def _real_task(args):
    spec, n, ffp, tols = args
    return check_real(spec, n, ffp, tols)


def run_real(seed, tier):
    rng = random.Random(seed * 7919 + 1)
    per = 16 if tier == 'quick' else 400
    res = {'graphs': 0, 'checks': 0, 'failures': [], 'hist': {'kind': {}, 'behaviour': {}, 'n': {}, 'fix_first_pose': {}}, 'samples': []}
    tols = [0.0, 1e-4, 1e-2, 1e-1, 1e-12, 1e-8]
    tasks, meta = [], []
    for kind in ('R2', 'R3', 'SE2', 'SE3'):
        for regime in ('converging', 'rough'):
            for j in range(per):
                noise, init_noise = (0.05, 0.05) if regime == 'converging' else (rng.choice([1.0, 3.0]), rng.choice([2.0, 6.0]))
                nv = rng.randint(2, 5)
                lm = rng.choice([0, 0, 1, 2]) if nv >= 2 else 0
                spec = gen_real_spec(rng, kind, noise, init_noise, nv, lm)
                n = rng.choice([3, 4, 5, 6]) if tier == 'quick' else rng.choice([4, 5, 6, 6])
                ffp = rng.random() < 0.7      # without a fixed vertex the system is gauge-singular for odometry-only graphs
                tasks.append((spec, n, ffp, tols if tier != 'quick' else tols[:4]))
                meta.append((kind, lm, n, ffp))
    pool = multiprocessing.get_context('fork').Pool(16)
    try:
        outs = pool.map(_real_task, tasks, chunksize=1)
    finally:
        pool.close()
        pool.join()
    for (kind, lm, n, ffp), out in zip(meta, outs):
        if len(out) == 2:
            res['hist']['behaviour']['raised_in_solver(skipped)'] = res['hist']['behaviour'].get('raised_in_solver(skipped)', 0) + 1
            continue
        checks, fails, info = out
        res['graphs'] += 1
        res['checks'] += checks
        res['failures'] += fails
        beh = info['behaviour']
        for key, val in (('kind', kind + ('+landmarks' if lm else '')), ('behaviour', beh), ('n', n), ('fix_first_pose', ffp)):
            res['hist'][key][str(val)] = res['hist'][key].get(str(val), 0) + 1
        if len(res['samples']) < 3 and beh.startswith(('diverging', 'chi2 rises')) and all(sm['behaviour'] != beh or sm['kind'] != kind for sm in res['samples']):
            res['samples'].append({'kind': kind, 'behaviour': beh, 'n': n, 'chi2_at_states': info['chi2'], 'splits_checked': 2 ** (n - 1) - 1})
    return res


def replay_real(p):
    out = check_real(p['spec'], p['n'], p['fix_first_pose'], [0.0, 1e-4, 1e-2, 1e-1, 1e-12, 1e-8])
    fails = out[1]
    for f in fails[:3]:
        print('FAIL: %s %s' % (f['what'], {k: f[k] for k in f if k in ('tol', 'max_iter', 'parts', 'fields')}))
    return 1 if fails else 0


def replay_scripted(p):
    table = [float.fromhex(h) for h in p['table']]
    graph = build_scripted(table, p.get('x0', 0.0))
    actual = readback(graph, TABLE_LEN)
    got = scripted_outcome(graph, p['tol'], p['max_iter'], p['verbose'], p['fix_first_pose'])
    if p['max_iter'] == 0:
        print('max_iter = 0: raised=%r' % got['raised'])
        return 0 if got['raised'] == 'IndexError' else 1
    exp = expected_from_sequence(actual, p['tol'], p['max_iter'])
    sf = statement_failures(exp, got)
    if got['final'] != got['calc_chi2_after']:
        sf.append('final_vs_calc_chi2')
    if p['verbose'] and got['raised'] is None and got['lines'] != lines_of_report(got):
        sf.append('printed lines are not the report values')
    if not p['verbose'] and not got['stdout_empty']:
        sf.append('verbose=False printed something')
    print('expected %s\ngot      %s\nfields   %s' % (exp, {k: got[k] for k in exp}, sf))
    return 1 if sf else 0
