"""C08 -- results do not depend on representation choices of the same physical graph."""
import json

import check
import corr_poses
import corr_edges
import oracle_graph
from props import _graphcommon


def extra(rep, info, seed, q):
    sp = info['summary'].get('tr_poses.py', {})
    se = info['summary'].get('tr_edges.py', {})
    if 'defs' not in sp or 'defs' not in se:
        rep.obligation('translators ran', False, 'no summary')
        return False
    cps = corr_poses.run(sp, seed, (1, 10)[q])
    ces = corr_edges.run(se, seed, (4, 80)[q])
    ok1 = not cps['disagreements'] and not cps['coq_errors'] and cps['evaluations'] > 0
    ok2 = not ces['disagreements'] and not ces['coq_errors'] and ces['evaluations'] > 0
    rep.obligation('correspondence 4.1 (poses): %d cases agree' % cps['evaluations'], ok1, json.dumps((cps['disagreements'] + cps['coq_errors'])[:1], default=str)[:1200])
    rep.obligation('correspondence 4.1 (edge programs): %d cases agree' % ces['evaluations'], ok2, json.dumps((ces['disagreements'] + ces['coq_errors'])[:1], default=str)[:1200])
    from props import _optcommon
    ok3 = _optcommon.optloop_extra(rep, seed, q)
    return ok1 and ok2 and ok3


def run(rep, tier, seed):
    rep.assumptions.append('The clause "negating any SE(3) unit quaternion" is REFUTED for odometry edges whose information matrix has a '
                           'translation-rotation cross term (theorem C08 last conjunct, known_findings.json); it is proved for landmark edges and for '
                           'block-diagonal information. "The optimization result is unchanged" is proved as correspondence of the assembled linear systems and of '
                           'their solutions (edge order, vertex order with the renumbering phi, relabelling, 2 pi, splitting, scaling), not through the float solver; '
                           'the stopping rule divides by (chi2_prev + machine epsilon), so runs on information scaled below ~1e-12 may stop one iteration apart '
                           '(same optimum): the oracle does not require borderline decisions to agree.')
    _graphcommon.run(rep, tier, seed, 'C08', ['C08'],
                     'edge permutation, id relabelling, 2 pi, edge splitting, information scaling, quaternion sign (restricted + refuted)',
                     oracle_graph.representation_independence,
                     'metamorphic transformations of real graphs (permuted vertex/edge lists, relabelled ids up to 2^61, +2k pi, split edges, scaled '
                     'information, negated quaternions) compared after 1..3 iterations',
                     n_graph=(30, 600), n_oracle=(10, 200), extra_corr=extra)


def replay(p):
    print(json.dumps(p, indent=1, default=str)[:3000])
    if p.get('finding_key') == oracle_graph.KNOWN_SIGN_KEY:
        print('chi2 with q and with -q:', oracle_graph.sign_finding_example())
    return 1
