"""C12 -- the optimization report is faithful, the stopping rule is the documented one, verbose does not
alter results, splitting a run into consecutive optimize() calls reproduces the trajectory."""
import json
import os
import time

import vlib
import check
import corr_optloop

# axiom-free theorems first (check.proof_stage collects every line after the first 'Axioms:' header)
THEOREMS = ['C12_initial', 'C12_iter_chi2', 'C12_final', 'C12_stop', 'C12_verbose', 'C12_split', 'C12_no_hidden_state',
            'C12_stop_R', 'C12_split_tol0_R', 'C12_split_boundary_refuted']
CORPUS = os.path.join(vlib.VERIF, 'corpus', 'optloop.json')


def run(rep, tier, seed):
    rep.cov['trusted_base'] += [
        'numpy float64 - / + <= < and unary minus = IEEE binary64 = Coq PrimFloat sub/div/add/leb/ltb/opp (comparisons with NaN false); np.finfo(float).eps = 0x1p-52',
        'hand-written model coq/lib/OptLoop.v of Graph.optimize (loop, stopping test, report bookkeeping); tied to graph.py by the bit-exact '
        'scripted-chi2 correspondence (tools/corr_optloop.py), not by translation',
        'modelled, not verified: the Gauss-Newton update itself (abstract `step`: _calc_chi2_gradient_hessian + spsolve + boxplus), '
        'fix_first_pose (abstract `prep`), Python list/attribute semantics of OptimizationResult, str.format of the printed lines (formatted by Python on both sides), '
        'the two header lines of the verbose output, wall-clock fields of the report',
        'test-only BaseEdge subclasses of the harness (PushEdge, CancelEdge, HoldEdge, TableEdge) that script the chi2 sequence on a real Graph']
    t0 = time.time()
    ok, info = check.proof_stage(rep, 'C12', THEOREMS, 'optimize-loop model lib/OptLoop.v: theorems for every scalar interface + real-number reading')
    if info['built']:
        rc, out = vlib.print_assumptions('props/C12.v', THEOREMS)
        blocks = []
        for l in out.splitlines():
            if l.startswith('Closed under'):
                blocks.append('Closed under the global context')
            elif l.startswith('Axioms:'):
                blocks.append([])
            elif l and not l[0].isspace() and blocks and isinstance(blocks[-1], list):
                blocks[-1].append(l.split()[0])
        per = dict(zip(THEOREMS, blocks)) if rc == 0 and len(blocks) == len(THEOREMS) else {'error': out[-500:]}
        rep.cov['print_assumptions_per_theorem'] = per
    # the float instance of the model used by the correspondence
    okf, logf = vlib.make(['lib/OptLoopF.vo'])
    rep.obligation('make lib/OptLoopF.vo (PrimFloat instance of the same model definition)', okf and vlib.vo_ok('lib/OptLoopF.vo'), logf[-1500:])
    t1 = time.time()
    corpus = json.load(open(CORPUS)) if os.path.exists(CORPUS) else []
    # correspondence 4.3
    if okf:
        corr = corr_optloop.run_scripted(seed, tier, [[float.fromhex(x) if isinstance(x, str) else float(x) for x in c['table']]
                                                       for c in corpus if 'table' in c])
    else:
        corr = {'tables': 0, 'model_cases': 0, 'impl_runs': 0, 'agree': 0, 'disagreements': [], 'oracle_failures': [],
                'coq_errors': [{'out': 'lib/OptLoopF.vo did not build'}], 'hist': {}, 'samples': [],
                'prescribed_exact_entries': 0, 'table_entries': 0}
    corr_ok = not corr['disagreements'] and not corr['coq_errors'] and corr['impl_runs'] > 0
    rep.obligation('correspondence 4.3: OptLoop.optimize over PrimFloat predicts the real Graph.optimize bit for bit on %d runs '
                   '(%d scripted chi2 tables x tol x max_iter 0..30 x verbose x fix_first_pose)' % (corr['impl_runs'], corr['tables']),
                   corr_ok, json.dumps((corr['disagreements'] + corr['coq_errors'])[:2], default=str)[:1500])
    rep.cov['traces_validated_against_impl'] = corr['agree']
    rep.cov['correspondence'] = {k: corr[k] for k in ('tables', 'model_cases', 'impl_runs', 'agree', 'prescribed_exact_entries', 'table_entries', 'hist')}
    rep.cov['correspondence']['coq_errors'] = len(corr['coq_errors'])
    rep.cov['correspondence']['compared'] = ('raised(max_iter=0), converged, num_iterations, len(iteration_results), per entry is_complete_iteration/chi2/rel_diff '
                                             'bit patterns, initial_chi2, final_chi2, number of updates applied (vertex position), printed progress lines; '
                                             'additionally final_chi2 == calc_chi2() of the returned graph, stdout empty when verbose=False')
    # direct oracle on real graphs
    t2 = time.time()
    real = corr_optloop.run_real(seed, tier)
    oracle_fail = list(real['failures']) + [dict(f, what='scripted run contradicts the statement of C12') for f in corr['oracle_failures']]
    # sequences that leave private caches of the Graph stale (calc_chi2 / optimize, then poses edited from outside, then optimize)
    import oracle_graph
    ev_s, stale = oracle_graph.stale_cache_sequences(seed, 30 if tier == 'quick' else 600)
    real['checks'] += ev_s
    oracle_fail += [dict(f, what=f['law']) for f in stale]
    rep.obligation('direct oracle: statement of C12 on %d real R2/R3/SE2/SE3 graphs (%d checks: report vs calc_chi2 at every state, every split, verbose) '
                   'and on every scripted run' % (real['graphs'], real['checks']), not oracle_fail,
                   json.dumps([{k: f[k] for k in f if k != 'spec'} for f in oracle_fail[:2]], default=str)[:1500])
    rep.cov['timings_s'] = {'proof_stage': round(t1 - t0, 1), 'scripted_correspondence': round(t2 - t1, 1), 'real_graph_oracle': round(time.time() - t2, 1)}
    rep.cov['direct_oracle'] = {k: real[k] for k in ('graphs', 'checks', 'hist')}
    rep.cov['evaluations'] = corr['impl_runs'] + real['checks']
    out = corr['hist'].get('outcome', {})
    rep.cov['distinct_nontrivial'] = corr['model_cases'] - out.get('raised', 0) + real['checks']
    rep.cov['rule'] = ('scripted: 13 table shapes (monotone geometric, monotone to a limit, plateau, rise-then-fall, equal, zeros, inf, nan, ratios exactly at / one ulp '
                       'around each tol, oscillating, negative incl. chi2_prev + eps = 0, huge/subnormal, random walk) x tol in {0,1e-12,1e-8,1e-4,1e-2,1e-1} x max_iter 0..30 '
                       'x verbose x fix_first_pose; non-trivial = max_iter >= 1 (max_iter = 0 raises IndexError in code and model); real graphs: random odometry(+landmark) graphs, '
                       'small noise (converging) and large noise / bad initial guess (rising, diverging, singular), n <= 6, every composition of n, tol in {0,1e-4,1e-2,1e-1,(1e-12,1e-8)}')
    rep.cov['samples'] = corr['samples'][:3] + real['samples'][:2]
    rep.assumptions += [
        'theorems are about the Gallina model; its agreement with graph.py is a test (bit-exact, max_iter <= 30, the listed tables)',
        'C12_split requires that the documented test holds nowhere in [1, k1+k2), cut included (C12_split_boundary_refuted shows the cut matters); '
        'for tol = 0 this follows from chi2 >= 0 over R (C12_split_tol0_R); over doubles it is checked by the oracle, not proved',
        'max_iter = 0 is outside the property (quantifier 1..30); code and model both raise IndexError after calc_chi2()']
    # verdict
    if oracle_fail:
        f = oracle_fail[0]
        key = 'split' if 'split' in f['what'] else ('verbose' if 'verbose' in f['what'] or 'printed' in f['what'] else 'report')
        rep.violation('oracle', dict(f, n_failures=len(oracle_fail)), finding_key=key)
    elif not (ok and okf and corr_ok):
        what = []
        if not ok:
            what.append('theorems of props/C12.v or their proof cone no longer check')
        if not okf:
            what.append('lib/OptLoopF.v does not build')
        if not corr_ok:
            what.append('correspondence 4.3 (OptLoop model vs Graph.optimize) disagrees while the direct oracle found no failing input')
        rep.violation('unproved', {'what': what, 'make_log_tail': info['make_log_tail'], 'disagreements': corr['disagreements'][:3],
                                   'coq_errors': corr['coq_errors'][:2]}, no_input=True)


def replay(p):
    if p.get('kind') == 'oracle' and 'spec' in p:
        return corr_optloop.replay_real(p)
    if p.get('kind') == 'oracle' and 'table' in p:
        return corr_optloop.replay_scripted(p)
    print(json.dumps(p, indent=1, default=str)[:4000])
    return 1
