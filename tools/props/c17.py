"""C17 -- equals is a sound, total tolerance comparison."""
import json
import os

import vlib
import check

CORPUS = os.path.join(vlib.VERIF, 'corpus', 'c17.json')
# the theorem that is closed under the global context comes first: check.proof_stage reads every
# non-indented line after the first "Axioms:" as an axiom name
THEOREMS = ['C17_structure_meaning', 'C17_total', 'C17_iff', 'C17_refl', 'C17_near', 'C17_far', 'C17_structural',
            'C17_total_refuted_offset_none', 'C17_executed_model_is_real_model']


def finding_key(p):
    a, b = p.get('a', {}), p.get('b', {})

    def cls(d):
        t = d.get('t')
        if t == 'pose':
            return 'Pose' + d.get('kind', '?')
        if t == 'edge':
            return d.get('cls', 'edge')
        return t or '?'
    return 'equals:%s-vs-%s:%s' % (cls(a), cls(b), p.get('observed', '?'))


def run(rep, tier, seed):
    rep.cov['trusted_base'] += [
        'hand-written executable model coq/lib/EqualsModel.v of the five equals methods (tied to the code by the correspondence below, not by translation)',
        'numpy: np.linalg.norm = sqrt of the sum of squares of the flattened array; broadcasting of 1-D operands; np.shape; float64 arithmetic '
        '(the correspondence only uses inputs whose verdict is at least a factor 2 away from the tolerance band edge)',
        'modelled, not verified: Python method resolution (EdgeLandmark.equals overrides BaseEdge.equals), short-circuit `and`/`or`/`all`, `type(x) is type(y)`']
    rep.assumptions += [
        'theorems are over exact reals (no NaN/inf); tol > 0 for C17_refl/near/far; C17_total and C17_structural hold for every tol',
        'well-formed: a pose stores as many numbers as its class says (PoseR2/PoseR3 accept any length), a landmark edge has a pose as offset '
        '(offset=None, which the docstring allows, makes EdgeLandmark.equals raise AttributeError: C17_total_refuted_offset_none)',
        'pairs are drawn within one category (pose/pose, vertex/vertex, edge/edge, graph/graph); custom edge classes inherit BaseEdge.equals',
        'C17_near uses the band ||a-b|| < tol^2: the test divides by max(||a||, tol), so for ||a|| < tol the absolute tolerance is tol^2, not tol']
    ok, info = check.proof_stage(rep, 'C17', THEOREMS, 'equals model: structural half for any numeric test, numeric half over R, Q<->R bridge')
    import corr_eqvalid
    mk, log = vlib.make(['lib/EqCorr.vo'])
    rep.obligation('make lib/EqCorr.vo (rational instance executed by the correspondence)', mk, log[-1500:])
    cs = corr_eqvalid.class_structure('C17')
    broken = [t for t, o in cs if not o]
    struct_ok = not broken
    rep.obligation('the model still mirrors the class structure (%d reflection checks: which class defines equals / to_array, no overrides, MROs)' % len(cs),
                   struct_ok, 'model no longer mirrors the class structure: ' + '; '.join(broken))
    rep.cov['class_structure_checks'] = len(cs)
    ncorp, corp_bad = corr_eqvalid.c17_corpus(CORPUS)
    rep.obligation('corpus of minimised past failures (%d pairs, corpus/c17.json) satisfies the specification' % ncorp, not corp_bad,
                   json.dumps(corp_bad[:2], default=str)[:1500])
    corr = corr_eqvalid.c17_run(tier, seed) if mk else {'evaluations': 0, 'agree': 0, 'disagreements': [], 'coq_errors': [{'out': 'EqCorr.vo not built'}],
                                                      'hist': {}, 'oracle_violations': [], 'oracle_checked': 0, 'by_category': {}, 'stats': {}, 'samples': [], 'files': 0, 'nontrivial': 0}
    corr_ok = not corr['disagreements'] and not corr['coq_errors'] and corr['evaluations'] > 0 and corr['agree'] == corr['evaluations']
    rep.obligation('correspondence 4.5: EqualsModel (rationals, vm_compute) and graphslam give the same verdict (True/False/exception class) on %d pairs' % corr['evaluations'],
                   corr_ok, json.dumps((corr['disagreements'] + corr['coq_errors'])[:2], default=str)[:1500])
    rep.obligation('direct oracle: declarative specification (never raises on well-formed pairs, False on any structural difference or far component, '
                   'True below the band) holds on the implementation for %d pairs' % corr['oracle_checked'],
                   not corr['oracle_violations'] and corr['oracle_checked'] > 0, json.dumps(corr['oracle_violations'][:2], default=str)[:1500])
    corr['oracle_violations'] = corp_bad + corr['oracle_violations']
    rep.cov['traces_validated_against_impl'] = corr['agree']
    rep.cov['corpus_cases'] = ncorp
    rep.cov['edge_shape_pairs_exhaustive'] = tier == 'thorough'
    rep.cov['evaluations'] = corr['evaluations'] + ncorp
    rep.cov['distinct_nontrivial'] = corr['nontrivial']
    rep.cov['exhaustive'] = False
    rep.cov['correspondence'] = {'pairs': corr['evaluations'], 'agree': corr['agree'], 'coq_files': corr['files'], 'verdict_distribution': corr['hist'],
                                 'by_category': corr['by_category'], 'generator': corr['stats'],
                                 'perturbation_magnitudes_times_tol': [0, 1e-12, 1e-9, 1e-3, 1e3], 'tolerances': [1e-6, 1e-2],
                                 'structured_multi_component_differences': corr['stats'].get('structured_transforms', []),
                                 'number_scales': ['all zero', 'O(1)', 'O(4096)']}
    rep.cov['rule'] = ('objects are built from one description that is rendered both as a Gallina literal over Q and as graphslam objects; '
                       'poses: 4 classes + 3 malformed lengths x 3 number scales, all ordered pairs x 2 tol, every single-component perturbation x 5 magnitudes x 2 tol; '
                       'vertices: 2 ids x 4 classes x 3 scales likewise; edges: 1134 shapes = class{Odometry,Landmark,CustomA,CustomB} x vertex_ids{[1,2],[2,1],[1,2,3]} '
                       'x information.shape{(2,2),(3,3),(2,3)} x estimate{4 pose classes, ndarray(2,), ndarray(3,), float} x offset{4 pose classes, None} x offset_id{None,0,1}: '
                       'ALL ordered pairs in the thorough tier, all ordered pairs of a seeded subset in quick, plus single-component perturbations; '
                       'structured multi-component differences, both directions, of every number array of poses / vertices / edges (information, estimate, offset) / graphs: '
                       'b = -a, 2a, a/2, components rotated, position negated, orientation (angle / quaternion) negated, position zero with orientation negated, '
                       'position mirrored with orientation reversed, and all arrays of the object at once; '
                       'graphs: 3 families x 12 variants (size, order of edges/vertices, edge class, pose class, ids, offset_id, empty) all ordered pairs + perturbations. '
                       'distinct by construction; non-trivial = the implementation returned a bool (not an exception)')
    rep.cov['samples'] = corr['samples'] or [{'note': 'no case ran'}]
    if corr['oracle_violations']:
        seen = set()
        firsts, whats = [], set()
        for p in corr['oracle_violations']:     # one representative of each kind of failure first
            if p['what'] not in whats:
                whats.add(p['what'])
                firsts.append(p)
        for p in firsts + corr['oracle_violations']:
            k = finding_key(p)
            if k in seen:
                continue
            seen.add(k)
            if len(seen) > 4:
                break
            rep.violation('oracle', dict(p, n_failures=len(corr['oracle_violations'])), finding_key=k)
    elif not (ok and corr_ok and mk and struct_ok):
        what = ['model no longer mirrors the class structure: ' + t for t in broken]
        if not ok:
            what.append('a theorem of props/C17.v or its proof cone no longer checks')
        if not corr_ok:
            what.append('correspondence 4.5 (EqualsModel vs implementation) disagrees: the theorems no longer speak about this code')
        rep.violation('unproved', {'what': what, 'make_log_tail': info['make_log_tail'],
                                   'disagreements': [d.get('payload', d) for d in corr['disagreements'][:3]], 'coq_errors': corr['coq_errors'][:2]}, no_input=True)


def replay(p):
    import corr_eqvalid
    if p.get('kind') == 'oracle':
        return corr_eqvalid.c17_replay(p)
    print(json.dumps(p, indent=1)[:4000])
    return 1
