"""C16 -- custom edges with numerical Jacobians optimize like analytic ones.  PARTIAL (DESIGN.md): proved = the
logic (which quotient the loop of BaseEdge.calc_jacobians forms and that it restores the poses, the
Taylor-Lagrange error bound of a forward difference, the pairs i<=j an n-slot edge contributes and hence, with
the assembly theorem of C03, that the assembled system is the Gauss-Newton system of those Jacobians, the
zero-residual fixed point shared by numerical and analytic runs); tested only = cancellation in doubles at
h = 1e-6, the second-derivative bound M of each member of the edge family, equality of the optima of the two
runs on noisy problems."""
import json
import os

import vlib
import check
import corr_fd
import oracle_fd

THEOREMS = ['C16_fd_matrix', 'C16_fd_matrix_copy_id', 'C16_fd_error', 'C16_fd_error_1e6', 'C16_fd_entry_error',
            'C16_pairs', 'C16_assembly_fd', 'C16_zero_residual']
CORPUS = os.path.join(vlib.VERIF, 'corpus', 'c16.json')
NEEDED = set()
for _k in corr_fd.KINDS:
    NEEDED |= {'%s_copy' % _k, '%s_iadd__arr%d' % (_k, corr_fd.CDIM[_k]), '%s_sub__%s' % (_k, _k), '%s_to_compact' % _k}


def run(rep, tier, seed):
    quick = tier == 'quick'
    rep.cov['trusted_base'] += [
        'numpy float64 + - * / sqrt = IEEE binary64 = Coq PrimFloat; numpy sin/cos values taken as given (table lookup)',
        'the FD correspondence evaluates the SAME error expression on both sides (Python interpreter of the Expr.v tree with IEEE '
        'double operations vs ExprF.evalF); copy() / `pose += delta` / COMPACT_DIMENSIONALITY on the Coq side are the definitions '
        'regenerated from graphslam/pose/*.py by tools/tr_poses.py',
        'modelled, not verified: Python attribute rebinding by `+=` (BasePose.__iadd__ returns a new object), numpy broadcasting of '
        '(calc_error() - err) / eps, column assignment jacobian[:, d] = ..., list-comprehension evaluation order in calc_jacobians',
        'direct oracles (tests): dual-number derivative (rules of ExprR.evalD, proved sound) through a hand-written boxplus; '
        'scipy spsolve inside Graph.optimize']
    rep.assumptions += [
        'PARTIAL property (DESIGN.md C16). PROVED in Coq: C16_fd_matrix (the loop returns exactly (err(x_k [+] h e_d) - err)/h per slot / column / '
        'component and restores the poses, for any error function, any number of slots), C16_fd_error (|FD - phi\'(0)| <= M h / 2 when |phi\'\'| <= M on [0,h]), '
        'C16_pairs + C16_assembly_fd (an n-slot edge contributes J_i^T Omega J_j for exactly the pairs i <= j; the assembled system of FD Jacobians is their '
        'Gauss-Newton system, by the assembly theorem of C03), C16_zero_residual (zero errors => zero right-hand side whatever the Jacobians: shared fixed point).',
        'TESTED ONLY (not proved): floating-point cancellation of the difference quotient at h = 1e-6, the second-derivative bound M for each member of the '
        'edge family, and that numerical and analytic runs reach the same optimum on noisy problems (their limits differ by O(h |e|)); these are the direct '
        'oracles fd_accuracy and paired_optimisations below, labelled tests.',
        'the model treats the poses of an edge\'s slots as values: exact for the Python code as long as `pose += delta` rebinds (checked by the correspondence on '
        'vertices that share one pose object) and the slots of an edge are distinct vertices',
        'C16_fd_matrix_copy_id assumes copy p = p; on doubles PoseSE2.copy() maps the stored angle +pi_f (reachable from PoseSE2(.., nextafter(-pi,-inf))) to -pi_f: '
        'the same heading, so the oracle compares SE(2) angles modulo 2pi within 2e-15 and everything else bitwise',
    ]
    ok, info = check.proof_stage(rep, 'C16', THEOREMS,
                                 'FD loop model lib/FDModel.v: induction over range(dim) and the slot list; Taylor-Lagrange (Coquelicot); '
                                 'hess_contribs pairs; instantiation of the C03 assembly theorem; zero-residual right-hand side')
    summ = info['summary'].get('tr_poses.py', {})
    unsup = check.unsupported_defs({'p': summ}, lambda d: d in NEEDED)
    missing = sorted(d for d in NEEDED if d not in summ.get('defs', {}))
    rep.obligation('translator accepted copy / += / ominus / to_compact of the four pose classes (used by the FD correspondence)',
                   not unsup and not missing and 'defs' in summ, 'refused: %s; missing: %s' % (', '.join(unsup), ', '.join(missing)))
    # ---- correspondence: model of the differentiation loop vs the real calc_jacobians
    corpus = json.load(open(CORPUS)) if os.path.exists(CORPUS) else []
    corr = corr_fd.run(seed, 150 if quick else 4000, corpus)
    rep.cov['traces_validated_against_impl'] = corr['agree']
    rep.cov['correspondence'] = {k: corr[k] for k in ('evaluations', 'agree', 'components', 'exact_components', 'hist', 'families',
                                                      'missing_generated_operators')}
    rep.cov['correspondence']['coq_errors'] = len(corr['coq_errors'])
    corr_ok = not corr['disagreements'] and not corr['coq_errors'] and corr['evaluations'] > 0
    rep.obligation('correspondence: lib/FDModel.v run in Coq over PrimFloat agrees with the real BaseEdge.calc_jacobians on %d error-only custom edges '
                   '(error value, every Jacobian entry, every pose left behind)' % corr['evaluations'], corr_ok,
                   json.dumps((corr['disagreements'] + corr['coq_errors'])[:2], default=str)[:1500])
    # ---- direct oracles (tests)
    ops = corr_fd.Ops()
    fams = corr_fd.all_families(ops)
    ev_a, entries_a, fails_a, hist_a = oracle_fd.fd_accuracy(seed, 300 if quick else 20000, fams)
    ev_b, conv_b, fails_b, hist_b = oracle_fd.paired_optimisations(seed, 40 if quick else 3000)
    rep.cov['oracle_tests'] = {
        'label': 'TESTS (the tested-only half of this partial property)',
        'fd_accuracy': {'cases': ev_a, 'jacobian_entries_checked_against_dual_number_derivative': entries_a, 'failures': len(fails_a), 'hist': hist_a},
        'paired_optimisations': {'graphs': ev_b, 'both_converged_and_optima_agree_1e-5': conv_b, 'failures': len(fails_b), 'hist': hist_b}}
    rep.obligation('direct oracle (test) fd_accuracy: %d Jacobian entries of %d custom edges within h/2 x second-derivative scale + cancellation floor of the '
                   'dual-number derivative; poses unchanged' % (entries_a, ev_a), not fails_a, json.dumps(fails_a[:1], default=str)[:1500])
    rep.obligation('direct oracle (test) paired_optimisations: %d graphs, numerical vs analytic Jacobians, both converge, optima agree to 1e-5' % ev_b,
                   not fails_b, json.dumps(fails_b[:1], default=str)[:1500])
    ev_c, fails_c = oracle_fd.handwritten_edges(seed, 200 if quick else 5000)
    rep.cov['oracle_tests']['handwritten_edges'] = {'edges': ev_c, 'failures': len(fails_c),
                                                    'what': 'error functions computing IN PLACE on the arrays handed out by position / to_array() / copy() '
                                                            '(range, 3-vertex midpoint, prior, shifted copy) x R2/R3/SE2/SE3'}
    rep.obligation('direct oracle (test) handwritten_edges: %d user-style error-only edges (in-place arithmetic on what the pose accessors return): numerical '
                   'Jacobians within 1e-4 of the derivative, poses bitwise unchanged by calc_error / calc_jacobians' % ev_c, not fails_c,
                   json.dumps(fails_c[:1], default=str)[:1500])
    rep.cov['evaluations'] = corr['evaluations'] + ev_a + ev_b + ev_c
    rep.cov['distinct_nontrivial'] = corr['agree'] + (ev_a - len(fails_a)) + conv_b
    rep.cov['rule'] = ('correspondence cases: family (distance, squared range, relative pose and prior in compact form built from the regenerated pose operators, '
                       '3-vertex midpoint, 3-vertex equal-spacing) x pose kinds (R2, R3, SE2, SE3, mixed where the family allows) x operands 50% typical / 30% '
                       'adversarial (w<0, angle at or next to +-pi, huge/tiny/zero translations) / 20% slots sharing one pose object; all drawn from one '
                       'random.Random(seed), so cases are distinct with probability 1; non-trivial = the implementation returned Jacobians and the model agreed; '
                       'fd_accuracy: same families at moderate magnitudes, non-trivial = passed; paired_optimisations: 3..10 poses, odometry chain + loop '
                       'closures + distance + midpoint edges, noise 0.01 (every 5th noise-free), vertices in shuffled order with random ids, 35% with two '
                       'vertices sharing one pose object, non-trivial = both runs converged and agreed')
    smp = []
    if corr['disagreements']:
        smp.append({'correspondence_disagreement': corr['disagreements'][0]})
    import random
    smp.append({'correspondence_case': corr_fd.gen_case(random.Random(seed), fams)})
    smp.append({'paired_optimisation_graph': {k: v for k, v in oracle_fd.graph_spec(random.Random(seed), kind='SE2', n=3).items()}})
    rep.cov['samples'] = smp
    # ---- verdict
    broken = not (ok and corr_ok and not unsup and not missing)
    if fails_c and not fails_a:
        rep.violation('oracle_hand', dict(fails_c[0], what='an error-only custom edge written with the pose accessors gets wrong numerical Jacobians / moves its '
                                                            'vertices, on this input', n_failures=len(fails_c)))
        return
    if broken and not fails_a and not fails_b:
        ev2, en2, fails_a, _ = oracle_fd.fd_accuracy(seed + 1, 3000, fams)
        rep.cov['evaluations'] += ev2
        if not fails_a:
            ev3, _, fails_b, _ = oracle_fd.paired_optimisations(seed + 1, 300)
            rep.cov['evaluations'] += ev3
    if fails_a:
        f = ([x for x in fails_a if 'row' in x] or fails_a)[0]        # prefer a wrong Jacobian entry over a moved pose
        rep.violation('oracle_fd', dict(f, what='the numerically differentiated Jacobian of an error-only custom edge disagrees with the true derivative / '
                                                'calc_jacobians does not restore the poses, on this input', n_failures=len(fails_a)))
    elif fails_b:
        f = fails_b[0]
        rep.violation('oracle_opt', dict(f, what='the graph built from error-only custom edges does not reach the optimum of the same graph with analytic Jacobians',
                                         n_failures=len(fails_b)))
    elif broken:
        what = []
        if not ok:
            what.append('theorem(s) of coq/props/C16.v or their proof cone no longer check')
        if not corr_ok:
            what.append('correspondence (model of the differentiation loop vs BaseEdge.calc_jacobians) disagrees')
        if unsup or missing:
            what.append('translator refused / did not produce: ' + ', '.join(unsup + missing))
        rep.violation('unproved', {'what': what, 'make_log_tail': info['make_log_tail'], 'disagreements': corr['disagreements'][:3],
                                   'coq_errors': corr['coq_errors'][:2]}, no_input=True)


def replay(p):
    if p.get('kind') == 'oracle_fd':
        fams = corr_fd.all_families(corr_fd.Ops())
        exprs = corr_fd.find_family(fams, p['case'])
        got, f = oracle_fd.fd_accuracy_case(p['case'], exprs)
        print('entries checked: %d; %s' % (got, f['why'] if f else 'no failure'))
        return 1 if f else 0
    if p.get('kind') == 'oracle_hand':
        print(json.dumps({k: v for k, v in p.items() if k not in ('numeric', 'derivative')}, indent=1, default=str)[:2500])
        return 1
    if p.get('kind') == 'oracle_opt':
        f = oracle_fd.paired_case(p['spec'])
        print(f['why'] if isinstance(f, dict) else 'no failure')
        return 1 if isinstance(f, dict) else 0
    print(json.dumps(p, indent=1, default=str)[:4000])
    return 1
