"""C06 -- fixed vertices never move and free vertices solve the reduced problem."""
import json

import oracle_graph
from props import _graphcommon


def run(rep, tier, seed):
    _graphcommon.run(rep, tier, seed, 'C06', ['C06'],
                     'fixed rows/columns, dx = 0 on fixed blocks, update loop skips fixed vertices (any increments), reduced problem, well-posedness preserved, fix_first_pose',
                     oracle_graph.fixed_vertices,
                     'runs of 1..20 iterations on well-posed, under-constrained (singular), diverging and all-fixed graphs, fixed vertices with no incident '
                     'edge: bitwise immobility of fixed vertices, fixed flags after optimize, free vertices vs the reduced dense system')


def replay(p):
    print(json.dumps(p, indent=1, default=str)[:3000])
    return 1
