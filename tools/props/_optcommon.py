"""Reduced correspondence 4.3 for the properties that speak about the RESULT of an optimization (C05, C07, C08): the stopping rule and
the update loop of Graph.optimize against lib/OptLoop.v over PrimFloat, on a few scripted chi2 tables (the full version is C12's)."""
import json

import vlib
import corr_optloop


def optloop_extra(rep, seed, q):
    okf, logf = vlib.make(['lib/OptLoopF.vo'])
    if not okf:
        rep.obligation('make lib/OptLoopF.vo', False, logf[-800:])
        return False
    shapes = corr_optloop.SHAPES[:6] if q == 0 else corr_optloop.SHAPES
    corr = corr_optloop.run_scripted(seed, 'quick', None, shapes=shapes, per_shape=(1 if q == 0 else 4))
    ok = not corr['disagreements'] and not corr['coq_errors'] and corr['impl_runs'] > 0 and not corr['oracle_failures']
    rep.obligation('correspondence 4.3 (reduced): lib/OptLoop.v over PrimFloat predicts Graph.optimize (stopping rule, report, number of updates) bit for bit on '
                   '%d scripted runs, near the origin and at abscissa 2^30, after a pre-history' % corr['impl_runs'], ok,
                   json.dumps((corr['disagreements'] + corr['coq_errors'] + corr['oracle_failures'])[:1], default=str)[:1200])
    rep.cov['correspondence_optloop'] = {k: corr[k] for k in ('tables', 'impl_runs', 'agree')}
    return ok
