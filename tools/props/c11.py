"""C11 -- manifold invariants (exact-arithmetic part proved; floating-point drift is a soak test)."""
import json

import oracle_poses
from props import _posecommon


def run(rep, tier, seed):
    rep.assumptions.append('PARTIAL: the theorem is over exact reals. The size of the drift of |q| in doubles over 10^4 operations / 50 '
                           'iterations and the closed upper end [-pi, pi] in doubles are covered only by the soak test (coverage.rule), never counted as obligations.')
    _posecommon.run(rep, tier, seed, 'C11', ['C11'],
                    'angle range/congruence of every SE(2) operation, norm multiplicativity and unit preservation along arbitrary chains, normalize()',
                    oracle_poses.manifold_invariants,
                    'soak: SE(2) angle sweeps (|theta| up to 1e6, neighbours of odd multiples of pi), SE(3) chains of random operations, optimizer runs, normalize()',
                    relevant=lambda d: d.startswith('SE2') or d.startswith('SE3'),
                    n_quick=40, n_thorough=400, n_search=400)


def replay(p):
    print(json.dumps(p, indent=1)[:3000])
    return 1
