"""C07 -- chi^2 and the optimization trajectory are independent of the world frame."""
import json

import oracle_edges
from props import _edgecommon
from props import _optcommon


def run(rep, tier, seed):
    rep.assumptions.append('Proved at two levels: (edge level, regenerated programs) errors, boxplus and Jacobians under T -- pose slots J\' = J, '
                           'landmark slots J\' = J R_T^-1 with R_T invertible; (graph level, lib/GNSpec.v) a per-vertex change of tangent basis maps every '
                           'solution of the normal equations to the solution of the re-based system (basis_change_inv), and the two abstract trajectory '
                           'theorems; the glue between the two levels is proved entry by entry for the landmark slots (C07_lmk*_is_rebased: J\'[a][j] = sum_m J[a][m] M[m][j], '
                           'the body of tb_mat). NOT formalised: packing the list-matrices of lib/Chain.v into the record type of lib/GraphModel.v for a whole graph, '
                           'and uniqueness of the solution is a hypothesis (H nonsingular). SE(3) statements assume unit quaternions. The metamorphic '
                           'oracle runs the whole thing on the implementation.')
    _edgecommon.run(rep, tier, seed, 'C07', ['C07'],
                    'left-invariance of all 8 edge errors, boxplus equivariance, Jacobian relations for pose AND landmark slots, graph-level change of tangent basis, two trajectory theorems',
                    oracle_edges.frame_independence,
                    'metamorphic runs on the implementation: chi2 and 1..5 optimizer iterations of a transformed graph vs the transform of the original '
                    '(T with rotations near 180 degrees, translations up to 1e4, SE2/SE3/R2/R3, landmarks with offsets)',
                    n_oracle=(25, 400), n_search=600, extra=_optcommon.optloop_extra)


def replay(p):
    print(json.dumps(p, indent=1, default=str)[:3000])
    return 1
