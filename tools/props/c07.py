"""C07 -- chi^2 and the optimization trajectory are independent of the world frame."""
import json

import oracle_edges
from props import _edgecommon


def run(rep, tier, seed):
    rep.assumptions.append('The trajectory theorem is stated for an abstract iteration whose linearisation is invariant (instantiated by the proved '
                           'error and pose-slot Jacobian invariance lemmas); for landmark slots the Jacobian picks up the rotation of T and the '
                           'corresponding statement H\' = P^T H P is NOT proved -- that case is covered by the metamorphic oracle only (partial).')
    _edgecommon.run(rep, tier, seed, 'C07', ['C07'],
                    'left-invariance of all 8 edge errors, boxplus equivariance, Jacobian invariance (uniqueness of the derivative), abstract trajectory theorem',
                    oracle_edges.frame_independence,
                    'metamorphic runs on the implementation: chi2 and 1..5 optimizer iterations of a transformed graph vs the transform of the original '
                    '(T with rotations near 180 degrees, translations up to 1e4, SE2/SE3/R2/R3, landmarks with offsets)',
                    n_oracle=(25, 400), n_search=600)


def replay(p):
    print(json.dumps(p, indent=1, default=str)[:3000])
    return 1
