"""C04 -- linear (R^2/R^3) graphs are solved to the global weighted-least-squares optimum."""
import json

import oracle_graph
from props import _graphcommon
from props import c08


def run(rep, tier, seed):
    rep.assumptions.append('The theorem is over exact reals: one exact Gauss-Newton step reaches zero gradient. That optimize() reaches it in doubles '
                           '"whatever the initial guess (also far away)" is checked by the oracle with starts up to 1e6 away.')
    _graphcommon.run(rep, tier, seed, 'C04', ['C04'],
                     'affine R^n edge programs; one step reaches zero gradient; stays; expansion of chi2; optimality; uniqueness',
                     oracle_graph.linear_optimum,
                     'random connected R^2/R^3 graphs (2..30 vertices, trees + loops + parallel and anti-parallel multi-edges, landmark edges with offsets, '
                     '>=1 fixed, SPD information cond up to 1e4, starts up to 1e6 away): optimize() vs independent numpy lstsq optimum and its chi2',
                     n_graph=(30, 600), n_oracle=(25, 500), extra_corr=c08.extra)


def replay(p):
    print(json.dumps(p, indent=1, default=str)[:3000])
    return 1
