"""Shared body of the edge-level property checks (C01, C02, C07): proof stage, correspondences 4.1
for poses and edges, a direct oracle on the implementation, verdict."""
import json

import check
import corr_poses
import corr_edges

TB = ['numpy float64 + - * / sqrt = IEEE binary64 = Coq PrimFloat; numpy sin/cos values taken as given (table lookup)',
      'np.dot of small dense arrays = textbook sum of products (lib/LinAlg.v mmul); BLAS summation order/FMA absorbed by the majorant tolerance',
      'modelled, not verified: ndarray views/dtype coercion, Python operator dispatch and attribute lookup as read by the translators',
      'theorems are over exact reals; the doubles computed by the code are tied to the same generated terms by the PrimFloat correspondence']


def run(rep, tier, seed, prop, theorems, desc, oracle, oracle_name, per_pose=(2, 20), per_edge=(6, 150), n_oracle=(6, 200), n_search=400, extra=None):
    rep.cov['trusted_base'] += TB
    q = 0 if tier == 'quick' else 1
    ok, info = check.proof_stage(rep, prop, theorems, desc)
    sp = info['summary'].get('tr_poses.py', {})
    se = info['summary'].get('tr_edges.py', {})
    unsup = check.unsupported_defs({'p': sp, 'e': se})
    unsup = [d for d in unsup if not d.endswith('from_matrix')]
    rep.obligation('translators accepted every pose/edge definition', not unsup and 'defs' in sp and 'defs' in se, ', '.join(unsup))
    cps = corr_poses.run(sp, seed, per_pose[q]) if 'defs' in sp else {'evaluations': 0, 'agree': 0, 'disagreements': [], 'coq_errors': [{'out': 'no summary'}], 'hist': {}, 'components': 0, 'exact_components': 0}
    ces = corr_edges.run(se, seed, per_edge[q]) if 'defs' in se else {'evaluations': 0, 'agree': 0, 'disagreements': [], 'coq_errors': [{'out': 'no summary'}], 'hist': {}, 'components': 0, 'exact_components': 0}
    rep.cov['traces_validated_against_impl'] = cps['agree'] + ces['agree']
    rep.cov['correspondence_poses'] = {k: cps[k] for k in ('evaluations', 'agree', 'components', 'exact_components', 'hist')}
    rep.cov['correspondence_edges'] = {k: ces[k] for k in ('evaluations', 'agree', 'components', 'exact_components', 'hist')}
    c1 = not cps['disagreements'] and not cps['coq_errors'] and cps['evaluations'] > 0
    c2 = not ces['disagreements'] and not ces['coq_errors'] and ces['evaluations'] > 0
    rep.obligation('correspondence 4.1 (poses): %d cases agree' % cps['evaluations'], c1, json.dumps((cps['disagreements'] + cps['coq_errors'])[:2], default=str)[:1500])
    rep.obligation('correspondence 4.1 (edge programs calc_error/calc_jacobians): %d cases agree' % ces['evaluations'], c2,
                   json.dumps((ces['disagreements'] + ces['coq_errors'])[:2], default=str)[:1500])
    c3 = extra(rep, seed, q) if extra else True
    ev, fails = oracle(seed, n_oracle[q])
    rep.cov['evaluations'] = cps['evaluations'] + ces['evaluations'] + ev
    rep.cov['distinct_nontrivial'] = max(0, cps['agree'] - cps['hist'].get('raise', 0)) + ces['agree'] + ev - len(fails)
    rep.cov['rule'] = ('correspondence: every generated pose definition and every edge program (8 edge kinds) x random operands (60% typical, 40% adversarial: '
                       'w<0, w=0, 180deg, +-pi, large/zero translations, offsets with rotation); non-trivial = value returned; oracle: ' + oracle_name)
    rep.cov['samples'] = [{'disagreement': d} for d in (cps['disagreements'] + ces['disagreements'])[:2]] or \
        [{'oracle': oracle_name, 'cases': ev, 'edge_programs': sorted(se.get('defs', {}))[:6]}]
    broken = not (ok and c1 and c2 and c3 and not unsup)
    if broken and not fails:
        ev2, fails = oracle(seed + 1, n_search)
        rep.cov['evaluations'] += ev2
    if fails:
        f = fails[0]
        rep.violation('oracle', dict(f, what='the property fails on the implementation for this input (%s)' % oracle_name, n_failures=len(fails)),
                      finding_key=f.get('finding_key', '%s' % f.get('edge', f.get('law'))))
    elif broken:
        what = []
        if not ok:
            what.append('theorem(s) %s (coq/props/%s.v) or the proof cone no longer check' % (', '.join(theorems), prop))
        if not c1:
            what.append('correspondence 4.1 (poses) disagrees')
        if not c2:
            what.append('correspondence 4.1 (edge programs) disagrees')
        if unsup:
            what.append('translator refused: ' + ', '.join(unsup))
        if not c3:
            what.append('correspondence 4.3 (optimizer loop model vs Graph.optimize) disagrees')
        rep.violation('unproved', {'what': what, 'make_log_tail': info['make_log_tail'],
                                   'disagreements': (cps['disagreements'] + ces['disagreements'])[:3],
                                   'coq_errors': (cps['coq_errors'] + ces['coq_errors'])[:2]}, no_input=True)
