"""C13 -- .g2o export followed by import is lossless."""
import json
import random

import vlib
import check
import corr_g2o

THEOREMS = ['C13_roundtrip', 'C13_cycles', 'C13_refuses', 'C13_cycles_n', 'C13_unpack_pack', 'C13_refusal_leaves_no_file']
SIGN_FLIP_KEY = 'se3-odometry-w-negative-normalize-changes-chi2'

TRUSTED = [
    'hand-written model coq/lib/G2OModel.v of Graph.to_g2o/from_g2o, Vertex/Edge*/G2OParameter*.to_g2o/from_g2o, '
    'upper_triangular_matrix_to_full_matrix (tied to the code by the token-level correspondence of this run, not verified)',
    'Section hypotheses of C13_roundtrip (oracle about CPython/numpy, validated on the numbers of this run, never proved): '
    'float(str(x)) == x bitwise; int(str(i)) == i; str(x), str(i) non-empty and whitespace-free',
    'Section hypotheses of C13_cycles: neg_pi_to_pi idempotent (validated bitwise on sampled angles); normalize idempotent '
    '(true in exact arithmetic; in doubles only up to 1 ulp -- measured, see coverage.oracle_hypotheses)',
    'Section hypotheses of C13_cycles_n in addition: normalize keeps 4 entries, 0.0 == 0.0 (both validated), and on the graph: no NaN in an SE(3) offset parameter',
    'modelled, not verified: str.split/startswith/strip, readlines() universal newlines, dict insertion order, '
    'np.triu_indices/np.tril_indices order (checked exactly by the correspondence), np.array_equal, logging',
]
ASSUME = [
    'graph = what Graph.__init__ accepts: edges bound to existing vertices by id, is_valid() true (wf)',
    'information matrices are float64, n x n and SYMMETRIC (the format stores the upper triangle; an asymmetric matrix is '
    'written as its upper triangle without error -- outside the property\'s notion of graph, noted, not claimed)',
    'pose arrays have the length of their class (PoseR2/PoseR3 accept any length; not modelled)',
    'Graph._g2o_params is None or a dict whose keys equal the parameters\' own keys (as from_g2o builds it)',
    'no custom edge type whose to_g2o writes a line (outside C13\'s quantifier); custom edges whose to_g2o returns None are '
    'silently skipped by the writer (canon drops them) -- outside the quantifier, noted',
    'a refused export leaves no file (C13_refusal_leaves_no_file): checked against the implementation for every refused case of the '
    'correspondence and of the direct oracle (ValueError and NotImplementedError alike)',
    'Vertex.fixed is not part of the format (never written, reader sets False): not part of canon',
    'chi2 is compared by the direct oracle only (bitwise when no number changed; 1e-9 relative when only wrap/normalize '
    'changed last bits); a measurement quaternion with w<0 or not of unit length is changed by normalize() itself -- chi2 '
    'then differs (C08 sign finding), counted in coverage.oracle.chi2_sign_flip_changed, not claimed',
]


def run(rep, tier, seed):
    rep.cov['trusted_base'] += TRUSTED
    rep.assumptions += ASSUME
    ok, info = check.proof_stage(rep, 'C13', THEOREMS, 'round trip, cycles, refusal over lib/G2OModel.v')
    rng = random.Random(seed)
    quick = tier == 'quick'
    # oracle hypotheses
    hyp = corr_g2o.check_oracle_hypotheses(rng, 600 if quick else 20000)
    rep.cov['oracle_hypotheses'] = {k: (v if not isinstance(v, list) else v[:5]) for k, v in hyp.items()}
    rep.obligation('oracle hypotheses parse(print x)=x, parse_id(print_id i)=i, tokens whitespace-free, identity offset = +0.0 '
                   'hold bitwise on %d sampled numbers' % hyp['parse_print'], not hyp['fail'], '; '.join(hyp['fail'][:3]))
    rep.obligation('oracle hypothesis wrap_idem (neg_pi_to_pi idempotent) holds bitwise on %d sampled angles' % (hyp['wrap_idem'] + len(hyp['wrap_idem_fail'])),
                   not hyp['wrap_idem_fail'], json.dumps(hyp['wrap_idem_fail'][:3]))
    rep.obligation('oracle hypothesis normq_idem holds up to 2 ulp on sampled quaternions (bitwise on %d of %d)' % (hyp['normq_idem_bitwise'], hyp['normq_len']),
                   hyp['normq_idem_max_ulp'] <= 2.0, 'max deviation %r ulp' % hyp['normq_idem_max_ulp'])
    hyp_ok = not hyp['fail'] and not hyp['wrap_idem_fail'] and hyp['normq_idem_max_ulp'] <= 2.0
    # correspondence 4.4, export side + canon; import side (shared with C14, smaller here)
    ce = corr_g2o.run_export(rng, 90 if quick else 1500, 'c13_exp')
    ci = corr_g2o.run_import(rng, 30 if quick else 400, 'c13_imp')
    for nm, c in (('export+canon', ce), ('import', ci)):
        c_ok = not c['disagreements'] and not c['coq_errors'] and c['evaluations'] > 0
        rep.obligation('correspondence 4.4 (%s): G2OModel evaluated in Coq agrees with graphslam on %d cases' % (nm, c['evaluations']),
                       c_ok, json.dumps((c['disagreements'] + c['coq_errors'])[:2], default=str)[:1500])
    corr_ok = all(not c['disagreements'] and not c['coq_errors'] and c['evaluations'] > 0 for c in (ce, ci))
    rep.cov['traces_validated_against_impl'] = ce['agree'] + ci['agree']
    rep.cov['correspondence'] = {'export': {k: ce[k] for k in ('evaluations', 'agree', 'stats')},
                                 'import': {k: ci[k] for k in ('evaluations', 'agree', 'stats')},
                                 'coq_errors': len(ce['coq_errors']) + len(ci['coq_errors']), 'custom_edge_types': corr_g2o.CUSTOM_SRC}
    # direct oracle: 1..5 cycles
    n, fails, st = corr_g2o.oracle_roundtrip(rng, 70 if quick else 1500, cycles=5)
    flip = st.pop('chi2_sign_flip_example', None)
    rep.cov['oracle'] = st
    rep.cov['evaluations'] = ce['evaluations'] + ci['evaluations'] + n
    rep.cov['distinct_nontrivial'] = ce['agree'] + ci['agree'] + st.get('moderate', 0) + st.get('wide', 0) - len(fails)
    rep.cov['rule'] = ('export cases: random graphs (2-7 vertices of SE2/SE3/R2/R3, 1-8 edges incl. what the format cannot express, custom '
                       'edges, duplicate ids, parameters), every number a distinct double from {[-10,10], 1e-300..1e300, subnormal, '
                       'integer-valued, >1e15, +-0.0}, ids incl. negative and > 2^31, quaternions with w<0 / w=0 / non-unit, SE(2) angles '
                       'in/outside [-pi,pi) and next to +-pi, symmetric non-diagonal information; compared token by token with the file '
                       'written; model canon g and canon(canon g) compared bitwise with the real re-import; import cases: see C14; '
                       'oracle: 5 export/import cycles on the implementation against an independent Python canon; non-trivial = '
                       'distinct generated inputs on which model and implementation were both run and agreed')
    rep.cov['samples'] = ([{'disagreement': d} for d in (ce['disagreements'] + ci['disagreements'])[:2]] or
                          [{'oracle_failure': f} for f in fails[:2]] or
                          [{'export_stats': ce['stats']}, {'oracle_stats': st}])
    rep.obligation('direct oracle: %d graphs x 5 cycles, every array bitwise as predicted (only wrap/normalize), refusals as enumerated, chi2' % n,
                   not fails, json.dumps(fails[:1], default=str)[:1500])
    if flip is not None:
        rep.cov['observed_outside_claim'] = {'what': 'SE(3) odometry measurement with w<0: normalize() on import negates the quaternion and chi2 changes '
                                                     '(C08 sign finding, shared)', 'example': flip}
        rep.violation('oracle', dict(flip, what='chi2 changes through normalize() on import'), finding_key=SIGN_FLIP_KEY)
    broken = not (ok and corr_ok and hyp_ok)
    if broken and not fails:
        # search for a concrete failing input with a larger budget
        n2, fails, st2 = corr_g2o.oracle_roundtrip(random.Random(seed + 1), 300, cycles=5)
        rep.cov['evaluations'] += n2
    if fails:
        f = fails[0]
        rep.violation('oracle', dict(f, n_failures=len(fails)), finding_key='roundtrip:' + f['what'].split(':')[0][:60])
    elif broken:
        what = []
        if not ok:
            what.append('theorems of props/C13.v or their proof cone no longer check')
        if not corr_ok:
            what.append('correspondence 4.4 (G2OModel vs implementation) disagrees')
        if not hyp_ok:
            what.append('an oracle hypothesis about str()/float()/int()/neg_pi_to_pi/normalize fails on sampled values')
        rep.violation('unproved', {'what': what, 'make_log_tail': info['make_log_tail'],
                                   'disagreements': (ce['disagreements'] + ci['disagreements'])[:3],
                                   'coq_errors': (ce['coq_errors'] + ci['coq_errors'])[:2], 'hypotheses': rep.cov['oracle_hypotheses']},
                      no_input=True)


def replay(p):
    if p.get('kind') == 'oracle' and 'graph' in p:
        return corr_g2o.replay_roundtrip(p)
    print(json.dumps(p, indent=1, default=str)[:4000])
    return 1
