"""C15 -- queries are pure; optimize changes only vertex poses (partial: syntactic frame analysis + oracle)."""
import json

import check
import oracle_graph


def run(rep, tier, seed):
    rep.cov['trusted_base'] += ['tools/tr_effects.py: syntactic store-effect extraction (assignments to attributes/subscripts, augmented assignments, known in-place mutators, '
                                'out= arguments, calls by name); conservative, NOT a semantics of Python',
                                'aliasing (one pose object shared by a vertex and a measurement, numpy views of one buffer), object identity and in-place ufuncs reached '
                                'through C code are invisible to the analysis: covered only by the bitwise-snapshot oracle']
    rep.assumptions.append('PARTIAL: the theorem is a frame condition on the regenerated effect table (finite, proved by computation); that the '
                           'table over-approximates the real stores is the translator\'s claim, validated only by the oracle (random interleavings of '
                           'up to 50 queries with bitwise snapshots, graphs with shared pose objects and negative-scalar quaternions).')
    ok, info = check.proof_stage(rep, 'C15', ['C15'], 'frame conditions on the effect table regenerated from every class of the package')
    se = info['summary'].get('tr_effects.py', {})
    rep.obligation('effect translator produced a table for %d methods' % len(se.get('defs', {})), 'defs' in se and len(se['defs']) > 100, str(se)[:300])
    n = 40 if tier == "quick" else 600
    ev, fails = oracle_graph.purity(seed, n)
    rep.cov['evaluations'] = ev
    rep.cov['distinct_nontrivial'] = ev - len(fails)
    rep.cov['rule'] = ('oracle: random SE2/SE3/R2/R3 graphs (landmarks with offsets, non-diagonal information, quaternions with w<0, 40% with pose objects shared '
                       'between a vertex and a measurement or two vertices built from one array, a custom edge with numerical Jacobians), 5..50 random queries '
                       '(chi2, errors, Jacobians, contributions, equals, to_g2o, pose operators, copy) each followed by a bitwise snapshot of all vertices and edges '
                       'and a repeat-value comparison, then optimize() with a snapshot of everything but free poses; non-trivial = every executed query')
    rep.cov['samples'] = [{'failure': f} for f in fails[:2]] or [{'queries_executed': ev}]
    rep.cov['traces_validated_against_impl'] = ev
    if fails:
        seen = set()
        for f in fails:
            k = f['law'][:60]
            if k in seen:
                continue
            seen.add(k)
            rep.violation('oracle', dict(f, what='purity violated on the implementation', n_failures=len(fails)), finding_key=k)
    elif not ok:
        ev2, fails2 = oracle_graph.purity(seed + 1, 200)
        rep.cov['evaluations'] += ev2
        if fails2:
            rep.violation('oracle', dict(fails2[0], what='purity violated on the implementation'), finding_key=fails2[0]['law'][:60])
        else:
            rep.violation('unproved', {'what': ['theorem C15 (frame conditions on the regenerated effect table) no longer checks: a method of the package now '
                                                'contains a store to protected state, or a listed method disappeared'], 'make_log_tail': info['make_log_tail']}, no_input=True)


def replay(p):
    print(json.dumps(p, indent=1, default=str)[:3000])
    return 1
