"""Shared body of the graph-level property checks (C03, C04, C06, C08): proof stage, exact integer
correspondence 4.2 of lib/GraphModel.v (and, where asked, the pose/edge correspondences), direct oracle."""
import json
import os

import vlib
import check
import corr_graph

CORPUS = os.path.join(vlib.VERIF, 'corpus', 'graph.json')
TB = ['hand-written model lib/GraphModel.v of graph.py / base_edge.py bookkeeping, validated by an EXACT integer correspondence (not verified against the source)',
      'modelled, not verified: scipy.sparse lil_matrix slice assignment (dense block writes), defaultdict/dict insertion order, set membership',
      'scipy.sparse.linalg.spsolve is NOT modelled: theorems quantify over every dx satisfying (or not) H dx = -b',
      'theorems are over exact reals']


def report_fails(rep, fails, oracle_name):
    seen = set()
    for f in fails:
        key = f.get('finding_key', f.get('law', 'oracle'))[:80]
        if key in seen:
            continue
        seen.add(key)
        rep.violation('oracle', dict(f, what='the property fails on the implementation for this input (%s)' % oracle_name,
                                     n_failures=len(fails)), finding_key=f.get('finding_key', key))


def run(rep, tier, seed, prop, theorems, desc, oracle, oracle_name, n_graph=(60, 1500), n_oracle=(20, 400), n_search=400, extra_corr=None):
    rep.cov['trusted_base'] += TB
    q = 0 if tier == 'quick' else 1
    ok, info = check.proof_stage(rep, prop, theorems, desc)
    corpus = json.load(open(CORPUS)) if os.path.exists(CORPUS) else []
    cg = corr_graph.run(seed, n_graph[q], corpus)
    c_ok = not cg['disagreements'] and not cg['coq_errors'] and cg['evaluations'] > 0
    rep.obligation('correspondence 4.2: lib/GraphModel.v over Z agrees EXACTLY with graph.py (binding, gradient, Hessian, chi2, update step) on %d graphs'
                   % cg['evaluations'], c_ok, json.dumps((cg['disagreements'] + cg['coq_errors'])[:1], default=str)[:1500])
    rep.cov['traces_validated_against_impl'] = cg['agree']
    rep.cov['correspondence_graph'] = {k: cg[k] for k in ('evaluations', 'agree', 'stats')}
    extra_ok = True
    if extra_corr:
        extra_ok = extra_corr(rep, info, seed, q)
    ev, fails = oracle(seed, n_oracle[q])
    rep.cov['evaluations'] = cg['evaluations'] + ev
    rep.cov['distinct_nontrivial'] = cg['agree'] - cg['stats'].get('keyerror', 0) + ev - len(fails)
    rep.cov['rule'] = ('correspondence graphs: 1-12 vertices of mixed dimension (2,3,3,6), random/negative/huge/duplicate ids, shuffled vertex list, '
                       '0-30 scripted edges with 1-3 slots in any order, parallel edges, every pattern of fixed vertices, fix_first_pose both, unknown ids; '
                       'integer data so that every comparison is exact; non-trivial = construction succeeded; oracle: ' + oracle_name)
    rep.cov['samples'] = [{'disagreement': d} for d in cg['disagreements'][:2]] or [{'graph_stats': cg['stats']}, {'oracle': oracle_name, 'cases': ev}]
    broken = not (ok and c_ok and extra_ok)
    real = [f for f in fails]
    if broken and not [f for f in real if not _is_known(rep, f)]:
        ev2, more = oracle(seed + 1, n_search)
        real = real + more
        rep.cov['evaluations'] += ev2
    if real:
        report_fails(rep, real, oracle_name)
    if broken and not any(not f.get('finding_key') or True for f in real if not _is_known(rep, f)):
        what = []
        if not ok:
            what.append('theorem(s) %s (coq/props/%s.v) or the proof cone no longer check' % (', '.join(theorems), prop))
        if not c_ok:
            what.append('correspondence 4.2 (GraphModel vs graph.py) disagrees')
        if not extra_ok:
            what.append('a pose/edge correspondence disagrees')
        rep.violation('unproved', {'what': what, 'make_log_tail': info['make_log_tail'], 'disagreements': cg['disagreements'][:2],
                                   'coq_errors': cg['coq_errors'][:2]}, no_input=True)


def _is_known(rep, f):
    k = f.get('finding_key')
    return k is not None and any(x.get('property') == rep.pid and x.get('status') == 'known' and x.get('key') == k for x in vlib.load_known())
