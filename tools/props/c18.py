"""C18 -- graph construction binds edges by vertex id and rejects ill-typed edges."""
import json
import os

import vlib
import check

CORPUS = os.path.join(vlib.VERIF, 'corpus', 'c18.json')

THEOREMS = ['C18_binding', 'C18_binding_order_independent', 'C18_duplicates_last_wins', 'C18_unknown_id', 'C18_iff',
            'C18_inconsistent_rejected', 'C18_consistent_sound_odometry', 'C18_consistent_sound_landmark',
            'C18_inconsistent_classes_odometry', 'C18_inconsistent_classes_landmark', 'C18_silent_lists']


def run(rep, tier, seed):
    rep.cov['trusted_base'] += [
        'hand-written executable model coq/lib/ValidModel.v of Graph._initialize, BaseEdge._is_valid, EdgeOdometry.is_valid, EdgeLandmark.is_valid '
        '(tied to the code by the correspondence below, not by translation)',
        'C18_consistent_sound_* are about the pose model regenerated from graphslam/pose/*.py (coq/gen), validated by the C10 float correspondence',
        'modelled, not verified: dict comprehension semantics (later key overwrites), isinstance on the four leaf pose classes, tuple comparison of information.shape, CPython assert']
    rep.assumptions += [
        'every vertex carries one of the four pose classes; ids are integers; information is an ndarray; `assert` is executed (python -O is outside the quantifier)',
        'a user edge class is modelled by an arbitrary predicate custom_ok evaluated after _is_valid(); its consistency is whatever that predicate says',
        'estimate / offset types enumerated: the four pose classes, ndarray of shape (2,) and (3,), float, None',
        'C18_inconsistent_classes_*: 9 odometry and 33 landmark class combinations are rejected by is_valid although no pose operation raises on them '
        '(operands read as plain arrays of >= 3 numbers); they are listed, not claimed to raise']
    ok, info = check.proof_stage(rep, 'C18', THEOREMS, 'construct model: dictionary/binding lemmas, construct <-> consistent, finite class tables from the regenerated pose model')
    import corr_eqvalid
    mk, log = vlib.make(['lib/ValidCases.vo'])
    rep.obligation('make lib/ValidCases.vo (case space of the correspondence)', mk, log[-1500:])
    empty = {'evaluations': 0, 'agree': 0, 'disagreements': [], 'coq_errors': [{'out': 'ValidCases.vo not built'}], 'dist': {}, 'oracle_violations': [],
             'accepted_library_edges_run': 0, 'files': 0, 'exhaustive': False, 'samples': []}
    cs = corr_eqvalid.class_structure('C18')
    broken = [t for t, o in cs if not o]
    struct_ok = not broken
    rep.obligation('the model still mirrors the class structure (%d reflection checks: which class defines is_valid / _is_valid / _initialize, no overrides, MROs, COMPACT_DIMENSIONALITY)' % len(cs),
                   struct_ok, 'model no longer mirrors the class structure: ' + '; '.join(broken))
    rep.cov['class_structure_checks'] = len(cs)
    ncorp, corp_bad = corr_eqvalid.c18_corpus(CORPUS)
    rep.obligation('corpus of minimised past failures (%d constructions, corpus/c18.json) satisfies the specification' % ncorp, not corp_bad,
                   json.dumps(corp_bad[:2], default=str)[:1500])
    corr = corr_eqvalid.c18_run(tier, seed) if mk else empty
    bind = corr_eqvalid.c18_binding_run(tier, seed) if mk else {'graphs': 0, 'agree': 0, 'disagreements': [], 'coq_errors': [], 'oracle_violations': [], 'accepted': 0, 'duplicate_id_graphs': 0}
    corr_ok = not corr['disagreements'] and not corr['coq_errors'] and corr['evaluations'] > 0 and corr['agree'] == corr['evaluations']
    bind_ok = not bind['disagreements'] and not bind['coq_errors'] and bind['graphs'] > 0 and bind['agree'] == bind['graphs']
    rep.obligation('correspondence 4.5: ValidModel.construct and Graph(edges, vertices) agree (accepted + binding ids/gradient indices | KeyError | AssertionError) on %d constructions%s'
                   % (corr['evaluations'], ' = the FULL cross product of the quantifier' if corr.get('exhaustive') else ''),
                   corr_ok, json.dumps((corr['disagreements'] + corr['coq_errors'])[:2], default=str)[:1500])
    rep.obligation('correspondence 4.5 (binding stream): %d random graphs with permuted vertex lists, duplicate ids (%d graphs) and several edges: same bindings'
                   % (bind['graphs'], bind['duplicate_id_graphs']), bind_ok, json.dumps((bind['disagreements'] + bind['coq_errors'])[:2], default=str)[:1500])
    n_g2o, g2o_bad = corr_eqvalid.c18_g2o_entry()
    rep.cov['g2o_entry_point_cases'] = n_g2o
    orv = corp_bad + corr['oracle_violations'] + bind['oracle_violations'] + g2o_bad
    rep.cov['corpus_cases'] = ncorp
    rep.obligation('direct oracle: declarative specification on the implementation (unknown id -> KeyError; inconsistent -> AssertionError; consistent -> accepted, '
                   'bound to the last vertex with the named id, calc_chi2() and optimize(max_iter=1) run) on %d constructions' % (corr['evaluations'] + bind['graphs']),
                   not orv and corr['evaluations'] > 0, json.dumps(orv[:2], default=str)[:1500])
    rep.cov['traces_validated_against_impl'] = corr['agree'] + bind['agree']
    rep.cov['evaluations'] = corr['evaluations'] + bind['graphs']
    acc = sum(v for k, v in corr['dist'].items() if k.endswith(':O'))
    rep.cov['distinct_nontrivial'] = corr['evaluations'] - sum(v for k, v in corr['dist'].items() if k.endswith(':K')) + bind['accepted']
    rep.cov['exhaustive'] = bool(corr.get('exhaustive'))
    rep.cov['correspondence'] = {'constructions': corr['evaluations'], 'agree': corr['agree'], 'coq_files': corr['files'],
                                 'outcome_distribution (class:O accepted, A AssertionError, K KeyError)': corr['dist'], 'accepted': acc,
                                 'accepted_library_edges_then_chi2_and_optimize_run': corr['accepted_library_edges_run'],
                                 'binding_stream': {k: bind[k] for k in ('graphs', 'agree', 'accepted', 'duplicate_id_graphs')}}
    rep.cov['rule'] = ('case = (edge class in {EdgeOdometry, EdgeLandmark, custom K0 = tests/edge_types.py BaseEdgeForTests, custom K1 with its own test}) x (vertex count 1..3) '
                       'x (pose class of each endpoint, 4 each) x (estimate type: 4 pose classes, ndarray(2,), ndarray(3,), float, None) x (offset type, landmark only: 4 pose classes, None, ndarray(3,)) '
                       'x (information.shape (r,c), r,c in 1..7) x (all ids known | slot j names an unknown id); vertex list in reverse order of the slots. '
                       'thorough: the complete cross product (count measured: coverage.correspondence.constructions); quick: the accepted region, its one-feature neighbours, the full type cross product with '
                       'the square shapes 2,3,6, and a seeded random sample. distinct by construction; non-trivial = all ids known (the validity predicates are reached)')
    rep.cov['samples'] = corr['samples'] or [{'note': 'no case ran'}]
    if orv:
        seen = set()
        for p in orv:
            k = 'construct:%s' % p.get('what', '?')[:60]
            if k in seen:
                continue
            seen.add(k)
            if len(seen) > 4:
                break
            if 'case' in p:
                p = dict(p, text=corr_eqvalid.c18_case_text(tuple(p['case'])))
            rep.violation('oracle', dict(p, n_failures=len(orv)), finding_key=k)
    elif not (ok and corr_ok and bind_ok and mk and struct_ok):
        what = ['model no longer mirrors the class structure: ' + t for t in broken]
        if not ok:
            what.append('a theorem of props/C18.v or its proof cone no longer checks (the class tables are recomputed from the regenerated pose model)')
        if not (corr_ok and bind_ok):
            what.append('correspondence 4.5 (ValidModel vs implementation) disagrees: the theorems no longer speak about this code')
        rep.violation('unproved', {'what': what, 'make_log_tail': info['make_log_tail'],
                                   'disagreements': (corr['disagreements'] + bind['disagreements'])[:3], 'coq_errors': (corr['coq_errors'] + bind['coq_errors'])[:2]}, no_input=True)


def replay(p):
    import corr_eqvalid
    if p.get('kind') == 'oracle':
        return corr_eqvalid.c18_replay(p)
    print(json.dumps(p, indent=1)[:4000])
    return 1
