"""C02 -- edge errors and chi^2 implement the documented measurement model."""
import json

import oracle_edges
from props import _edgecommon


def run(rep, tier, seed):
    _edgecommon.run(rep, tier, seed, 'C02', ['C02'],
                    'measurement model of the regenerated edge programs vs lib/Spec.v; chi2 = e^T Omega e; graph chi2 = sum; zero / non-negative / linear',
                    oracle_edges.measurement_model,
                    'independent numpy homogeneous-matrix re-implementation of the measurement model; chi2 with random non-diagonal SPD information '
                    '(condition up to 1e8); graph chi2 vs the sum of edge chi2',
                    n_oracle=(8, 300), n_search=600)


def replay(p):
    print(json.dumps(p, indent=1, default=str)[:3000])
    return 1
