"""C10 -- public pose Jacobian methods are exact derivatives."""
import json
import os

import vlib
import check
import corr_poses
import oracle_poses

THEOREMS = ['C10']
CORPUS = os.path.join(vlib.VERIF, 'corpus', 'poses.json')


def run(rep, tier, seed):
    rep.cov['trusted_base'] += [
        'numpy float64 + - * / sqrt = IEEE binary64 = Coq PrimFloat; numpy sin/cos values taken as given (table lookup)',
        'modelled, not verified: ndarray views/dtype coercion in __new__, Python operator dispatch as read by the translator']
    ok, info = check.proof_stage(rep, 'C10', THEOREMS, 'Jacobian obligations for 12 methods x 4 pose classes, regenerated from pose/*.py')
    summ = info['summary'].get('tr_poses.py', {})
    unsup = check.unsupported_defs({'p': summ}, lambda d: 'jacobian' in d or '_add__' in d or '_sub__' in d or d.endswith('_inverse'))
    rep.obligation('translator accepted every Jacobian/operation definition used by C10', not unsup, ', '.join(unsup))
    # correspondence 4.1
    per = 3 if tier == 'quick' else 40
    corpus = json.load(open(CORPUS)) if os.path.exists(CORPUS) else []
    corr = corr_poses.run(summ, seed, per, corpus) if 'defs' in summ else {'evaluations': 0, 'agree': 0, 'disagreements': [], 'coq_errors': [{'out': 'no translator summary'}], 'components': 0, 'exact_components': 0, 'hist': {}}
    rep.cov['traces_validated_against_impl'] = corr['agree']
    rep.cov['correspondence'] = {k: corr[k] for k in ('evaluations', 'agree', 'components', 'exact_components', 'hist')}
    rep.cov['correspondence']['coq_errors'] = len(corr['coq_errors'])
    corr_ok = not corr['disagreements'] and not corr['coq_errors'] and corr['evaluations'] > 0
    rep.obligation('correspondence: generated pose definitions evaluated in Coq (PrimFloat) agree with graphslam on %d cases' % corr['evaluations'],
                   corr_ok, json.dumps((corr['disagreements'] + corr['coq_errors'])[:2], default=str)[:1500])
    # direct oracle
    n = 6 if tier == 'quick' else 100
    ev, fails = oracle_poses.check_jacobians(seed, n)
    rep.cov['evaluations'] = corr['evaluations'] + ev
    rep.cov['distinct_nontrivial'] = corr['agree'] - corr['hist'].get('raise', 0) + ev - len(fails)
    rep.cov['rule'] = ('correspondence cases: every generated (method, operand kind) definition x random operands (60% typical, 40% adversarial: '
                       'w<0, w=0, 180deg, +-pi, huge/tiny/zero translations); non-trivial = the implementation returned a value (not an exception); '
                       'oracle cases: central differences of the real operation vs the real Jacobian method')
    rep.cov['samples'] = [{'correspondence_case': d} for d in corr['disagreements'][:2]] or \
        [{'oracle': 'central difference vs analytic Jacobian', 'classes': ['R2', 'R3', 'SE2', 'SE3'], 'cases': ev}]
    if not (ok and corr_ok and not unsup):
        # search for a concrete failing input with a larger budget
        if not fails:
            ev2, fails = oracle_poses.check_jacobians(seed + 1, 300)
            rep.cov['evaluations'] += ev2
    if fails:
        f = fails[0]
        rep.violation('oracle', dict(f, what='analytic Jacobian differs from the derivative of the operation', n_failures=len(fails)),
                      finding_key='%s.%s' % (f['class'], f['method']))
    elif not (ok and corr_ok and not unsup):
        what = []
        if not ok:
            what.append('theorem C10 (props/C10.v) or its proof cone no longer checks')
        if not corr_ok:
            what.append('correspondence 4.1 (generated pose model vs implementation) disagrees')
        if unsup:
            what.append('translator refused: ' + ', '.join(unsup))
        rep.violation('unproved', {'what': what, 'make_log_tail': info['make_log_tail'],
                                   'disagreements': corr['disagreements'][:3], 'coq_errors': corr['coq_errors'][:2]}, no_input=True)


def replay(p):
    if p.get('kind') == 'oracle':
        err = oracle_poses.replay_jacobian(p)
        return 1 if err > 1e-4 else 0
    print(json.dumps(p, indent=1)[:4000])
    return 1
