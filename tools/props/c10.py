"""C10 -- public pose Jacobian methods are exact derivatives."""
import json

import oracle_poses
from props import _posecommon


def run(rep, tier, seed):
    _posecommon.run(rep, tier, seed, 'C10', ['C10'],
                    'Jacobian obligations for 12 methods x 4 pose classes, regenerated from pose/*.py',
                    oracle_poses.check_jacobians, 'central differences of the real operation vs the real Jacobian method',
                    relevant=lambda d: 'jacobian' in d or '_add__' in d or '_sub__' in d or d.endswith('_inverse'))


def replay(p):
    if p.get('kind') == 'oracle':
        err = oracle_poses.replay_jacobian(p)
        return 1 if err > 1e-4 else 0
    print(json.dumps(p, indent=1)[:4000])
    return 1
