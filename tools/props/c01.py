"""C01 -- analytic edge Jacobians are the exact derivative of the edge error."""
import json

import oracle_edges
from props import _edgecommon


def run(rep, tier, seed):
    rep.assumptions.append('SE(2): the theorem carries the hypotheses that the vertex angle and the inner wrapped angle theta2-theta1 (resp. the '
                           'angle of pose(+)offset) are not exactly at the wrap-around point; the property excludes only the outer one. The two '
                           'extra measure-zero sets are covered by the oracle only.')
    _edgecommon.run(rep, tier, seed, 'C01', ['C01'],
                    'chain-rule theorems for 8 edge kinds x 2 vertices over the regenerated edge programs and pose methods',
                    oracle_edges.check_edge_jacobians,
                    'central differences of calc_error through pose + delta vs calc_jacobians() on the real edges')


def replay(p):
    print(json.dumps({k: v for k, v in p.items() if k not in ('analytic', 'numeric')}, indent=1)[:3000])
    if p.get('kind') == 'oracle' and 'edge' in p:
        import numpy as np
        import corr_edges as ce
        h = p.get('after_history')
        if h:
            e, _ = ce.build(p['edge'], h['initial_vals'])
            getattr(e, h['call'])()
            arr = e.vertices[h['vertex']].pose
            np.ndarray.__setitem__(arr, slice(None), np.array(p['vals'][h['vertex']], dtype=np.float64))
            print('history: %s(), then %s' % (h['call'], h['then']))
        else:
            e, _ = ce.build(p['edge'], p['vals'])
        print('analytic:', [np.asarray(J) for J in e.calc_jacobians()])
        print('numeric :', oracle_edges.num_jacobians(e))
    return 1
