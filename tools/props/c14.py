"""C14 -- .g2o import is faithful to the file."""
import json
import random

import vlib
import check
import corr_g2o

THEOREMS = ['C14_one_object_per_line', 'C14_fields', 'C14_skip', 'C14_prefix_disjoint', 'C14_ws']

TRUSTED = [
    'hand-written model coq/lib/G2OModel.v of Graph.from_g2o and the per-type from_g2o parsers (tied to the code by the '
    'correspondence of this run, not verified)',
    'tokens -> numbers is Python\'s float()/int(): an oracle (the harness passes Python\'s own answers for every token of the file '
    'to the model); neg_pi_to_pi and PoseSE3.normalize are symbols of the model, evaluated by the implementation\'s own functions',
    'modelled, not verified: str.split/startswith/strip on ASCII, readlines() universal newlines (cross-checked against an '
    'independent splitter on every file), dict insertion order, np.triu_indices/np.tril_indices order, logging, Graph.__init__ binding',
]
ASSUME = [
    'files are ASCII (non-ASCII whitespace such as U+00A0 is not modelled)',
    'well-formed = each recognised line has exactly the field count of its tag; for other counts the model answers "outside the '
    'fragment" (the code raises IndexError/ValueError or, for some counts, silently accepts: e.g. extra fields on VERTEX_XY); '
    'what the implementation did is counted in coverage.correspondence.stats.malformed_impl_*',
    'custom edge types are of the tag-prefix kind of tests/edge_types.py',
    'inf/nan tokens are outside the quantifier',
]


def run(rep, tier, seed):
    rep.cov['trusted_base'] += TRUSTED
    rep.assumptions += ASSUME
    ok, info = check.proof_stage(rep, 'C14', THEOREMS, 'one item per line, fields, skipping, dispatch, whitespace over lib/G2OModel.v')
    rng = random.Random(seed + 14)
    quick = tier == 'quick'
    ci = corr_g2o.run_import(rng, 150 if quick else 3000, 'c14_imp')
    corr_ok = not ci['disagreements'] and not ci['coq_errors'] and ci['evaluations'] > 0
    rep.obligation('correspondence 4.4 (import): G2OModel evaluated in Coq agrees with Graph.from_g2o and the five loaders on %d files' % ci['evaluations'],
                   corr_ok, json.dumps((ci['disagreements'] + ci['coq_errors'])[:2], default=str)[:1500])
    rep.cov['traces_validated_against_impl'] = ci['agree']
    rep.cov['correspondence'] = {k: ci[k] for k in ('evaluations', 'agree', 'stats')}
    rep.cov['correspondence']['coq_errors'] = len(ci['coq_errors'])
    rep.cov['correspondence']['custom_edge_types'] = corr_g2o.CUSTOM_SRC
    n, fails, st = corr_g2o.oracle_files(rng, 150 if quick else 3000)
    rep.cov['oracle'] = st
    rep.obligation('direct oracle: independent regex parser vs Graph.from_g2o, and skip-invariance, on %d files' % n, not fails,
                   json.dumps(fails[:1], default=str)[:1500])
    rep.cov['evaluations'] = ci['evaluations'] + n
    rep.cov['distinct_nontrivial'] = ci['stats'].get('ok_graphs', 0) + st.get('files_ok', 0)
    rep.cov['rule'] = ('files: 2-7 vertices, 0-4 parameter lines (ids redefined sometimes), 1-8 edges of all kinds incl. TestEdge custom lines, any legal '
                       'interleaving (SE(3) landmark edges after a definition of their parameter; vertices anywhere); flavours valid / messy '
                       '(runs of space, tab, VT, FF, 0x1c, 0x1f; leading/trailing whitespace; LF / CRLF / mixed; no final newline; 0-5 junk or blank '
                       'lines from a list of near-miss tags, comments, tag+TAB) / malformed (bad number, bad id, wrong count, missing vertex, '
                       'ill-typed edge, parameter after use); numeric tokens: repr, %.17g, %e, +x, integers, 1e3, .5, 5., -0.0, 1E-5, 1_000.5, '
                       '007.50; ids with +, leading zeros, negative, > 2^31; non-trivial = files on which the model returned a graph and it '
                       'agreed bitwise with Graph.from_g2o (plus the five loaders)')
    rep.cov['samples'] = ([{'disagreement': d} for d in ci['disagreements'][:2]] or [{'oracle_failure': f} for f in fails[:2]] or
                          [{'import_stats': ci['stats']}, {'oracle_stats': st}])
    broken = not (ok and corr_ok)
    if broken and not fails:
        n2, fails, st2 = corr_g2o.oracle_files(random.Random(seed + 15), 400)
        rep.cov['evaluations'] += n2
    if fails:
        f = fails[0]
        rep.violation('oracle', dict(f, n_failures=len(fails)), finding_key='import:' + f['what'].split(':')[0][:60])
    elif broken:
        what = []
        if not ok:
            what.append('theorems of props/C14.v or their proof cone no longer check')
        if not corr_ok:
            what.append('correspondence 4.4 (G2OModel import vs Graph.from_g2o / loaders) disagrees')
        rep.violation('unproved', {'what': what, 'make_log_tail': info['make_log_tail'], 'disagreements': ci['disagreements'][:3],
                                   'coq_errors': ci['coq_errors'][:2]}, no_input=True)


def replay(p):
    if p.get('kind') == 'oracle' and 'text' in p:
        return corr_g2o.replay_file(p)
    print(json.dumps(p, indent=1, default=str)[:4000])
    return 1
