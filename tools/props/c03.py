"""C03 -- one optimizer iteration is exactly the Gauss-Newton step."""
import json

import oracle_graph
from props import _graphcommon


def run(rep, tier, seed):
    _graphcommon.run(rep, tier, seed, 'C03', ['C03'],
                     'assembly theorem: model of the dictionaries / slice writes = independently written normal equations; update step',
                     oracle_graph.gauss_newton_step,
                     'real graphs (SE2/SE3/R2/R3 + landmarks with offsets + custom unary/ternary edges, shuffled vertices, odd ids, several fixed): '
                     'poses after optimize(max_iter=1) vs pose [+] (-H^-1 b) from independent dense numpy normal equations')


def replay(p):
    print(json.dumps(p, indent=1, default=str)[:3000])
    return 1
