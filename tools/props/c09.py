"""C09 -- pose composition is the rigid-motion group."""
import json

import oracle_poses
from props import _posecommon


def run(rep, tier, seed):
    _posecommon.run(rep, tier, seed, 'C09', ['C09'],
                    'group laws of the translated pose code vs lib/Spec.v (Hamilton product, q v conj q, homogeneous matrices)',
                    oracle_poses.group_laws, 'group laws checked on the implementation against numpy homogeneous matrices',
                    relevant=lambda d: not d.endswith('normalize') and 'jacobian' not in d,
                    n_quick=40, n_thorough=1500, n_search=3000)


def replay(p):
    print(json.dumps(p, indent=1)[:3000])
    if p.get('kind') == 'oracle':
        import random
        ev, fails = oracle_poses.group_laws(0, 0)
        # re-run exactly this case
        from corr_poses import make_pose
        import numpy as np
        k = p['class']
        A, B = make_pose(k, p['a']), make_pose(k, p['b'])
        print('a (+) b =', (A + B).to_array(), '\nM(a) M(b) =\n', oracle_poses.hom(k, A.to_array()) @ oracle_poses.hom(k, B.to_array()))
    return 1
