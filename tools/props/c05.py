"""C05 -- local convergence to a stationary point on SE(2)/SE(3) (partial: logic proved, convergence soak-tested)."""
import json

import oracle_graph
from props import _graphcommon
from props import c08


def run(rep, tier, seed):
    rep.assumptions.append('PARTIAL: proved = derivative of chi2 through the code Jacobians (C01), stationary <-> zero gradient, descent direction, consistent '
                           'configurations, monotone stop. NOT proved = the quantitative claim (size of the basin of attraction of un-damped Gauss-Newton, Newton '
                           'decrement in doubles below tol): soak test inside the calibrated neighbourhood noise_t <= %(noise_t)s, rotational noise half of it, '
                           'initial perturbation <= %(pert_t)s (rotational half), tol in [1e-10,1e-3], max_iter 50; calibration: 0 failures over 2000 seeded '
                           'graphs at TWICE these bounds.' % oracle_graph.C05_BOUNDS)
    _graphcommon.run(rep, tier, seed, 'C05', ['C05'],
                     'chi2 derivative via C01, stationarity, descent, consistent configuration, stopping rule',
                     oracle_graph.local_convergence,
                     'SOAK TEST (not a proof): SE2/SE3 graphs with 3..40 poses, loop closures, landmarks with rotated offsets, SPD information with cross terms; '
                     'final chi2 <= initial, Newton decrement of an independent dense model <= 10*tol*chi2, noise-free relative poses = ground truth',
                     n_graph=(20, 300), n_oracle=(60, 3000), extra_corr=c08.extra)


def replay(p):
    print(json.dumps(p, indent=1, default=str)[:3000])
    return 1
