"""Shared body of the pose-level property checks (C09, C10, C11): proof stage, correspondence 4.1,
a direct oracle on the implementation, verdict."""
import json
import os

import vlib
import check
import corr_poses

CORPUS = os.path.join(vlib.VERIF, 'corpus', 'poses.json')


def run(rep, tier, seed, prop, theorems, desc, oracle, oracle_name, relevant=lambda d: True, per_quick=3, per_thorough=40,
        n_quick=6, n_thorough=100, n_search=300):
    rep.cov['trusted_base'] += [
        'numpy float64 + - * / sqrt = IEEE binary64 = Coq PrimFloat; numpy sin/cos values taken as given (table lookup)',
        'modelled, not verified: ndarray views/dtype coercion in __new__, Python operator dispatch as read by the translator',
        'NOT modelled (no theorem, direct oracle only): PoseSE2.from_matrix (math.atan2 has no counterpart in the expression language), equals (C17 has its own model)',
        'theorems are over exact reals; the doubles computed by the code are tied to the same generated terms by the PrimFloat correspondence (tolerance 2^-40 x absolute-value majorant, bit-exact count reported)']
    ok, info = check.proof_stage(rep, prop, theorems, desc)
    summ = info['summary'].get('tr_poses.py', {})
    unsup = check.unsupported_defs({'p': summ}, relevant)
    rep.obligation('translator accepted every definition used by %s' % prop, not unsup and 'defs' in summ, ', '.join(unsup))
    per = per_quick if tier == 'quick' else per_thorough
    corpus = json.load(open(CORPUS)) if os.path.exists(CORPUS) else []
    if 'defs' in summ:
        corr = corr_poses.run(summ, seed, per, corpus)
    else:
        corr = {'evaluations': 0, 'agree': 0, 'disagreements': [], 'coq_errors': [{'out': 'no translator summary'}],
                'components': 0, 'exact_components': 0, 'hist': {}}
    rep.cov['traces_validated_against_impl'] = corr['agree']
    rep.cov['correspondence'] = {k: corr[k] for k in ('evaluations', 'agree', 'components', 'exact_components', 'hist')}
    rep.cov['correspondence']['coq_errors'] = len(corr['coq_errors'])
    corr_ok = not corr['disagreements'] and not corr['coq_errors'] and corr['evaluations'] > 0
    rep.obligation('correspondence 4.1: generated pose definitions evaluated in Coq (PrimFloat) agree with graphslam on %d cases'
                   % corr['evaluations'], corr_ok, json.dumps((corr['disagreements'] + corr['coq_errors'])[:2], default=str)[:1500])
    n = n_quick if tier == 'quick' else n_thorough
    ev, fails = oracle(seed, n)
    rep.cov['evaluations'] = corr['evaluations'] + ev
    rep.cov['distinct_nontrivial'] = max(0, corr['agree'] - corr['hist'].get('raise', 0)) + ev - len(fails)
    rep.cov['rule'] = ('correspondence cases: every generated (method, operand kind) definition x random operands (60% typical, 40% adversarial: '
                       'w<0, w=0, 180deg, +-pi, huge/tiny/zero translations); non-trivial = the implementation returned a value (not an exception); '
                       'oracle cases: ' + oracle_name)
    rep.cov['samples'] = [{'correspondence_case': d} for d in corr['disagreements'][:2]] or \
        [{'oracle': oracle_name, 'cases': ev, 'example_definitions': sorted(summ.get('defs', {}))[:5]}]
    broken = not (ok and corr_ok and not unsup)
    if broken and not fails:
        ev2, fails = oracle(seed + 1, n_search)
        rep.cov['evaluations'] += ev2
    if fails:
        f = fails[0]
        key = '%s.%s' % (f.get('class'), f.get('method', f.get('law')))
        rep.violation('oracle', dict(f, what='the property fails on the implementation for this input (%s)' % oracle_name,
                                     n_failures=len(fails)), finding_key=key)
    elif broken:
        what = []
        if not ok:
            what.append('theorem(s) %s (coq/props/%s.v) or the proof cone no longer check' % (', '.join(theorems), prop))
        if not corr_ok:
            what.append('correspondence 4.1 (generated pose model vs implementation) disagrees')
        if unsup:
            what.append('translator refused: ' + ', '.join(unsup))
        rep.violation('unproved', {'what': what, 'make_log_tail': info['make_log_tail'],
                                   'disagreements': corr['disagreements'][:3], 'coq_errors': corr['coq_errors'][:2]}, no_input=True)
