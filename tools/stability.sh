#!/bin/bash
# developer tool: run every quick check under several seeds on the unchanged tree; any non-zero exit is a false alarm to fix
cd /verif
out=build/stability.log; : > $out
for seed in "$@"; do
  for p in C01 C02 C03 C04 C05 C06 C07 C08 C09 C10 C11 C12 C13 C14 C15 C16 C17 C18; do
    s=$(date +%s)
    r=$(VERIF_SEED=$seed PYTHONPATH=/repo PYTHONHASHSEED=0 /venv/bin/python tools/check.py $p --tier quick 2>&1 | grep "VIOLATION\|Traceback" | head -3)
    rc=$?
    e=$(date +%s)
    echo "seed=$seed $p wall=$((e-s))s ${r:0:300}" >> $out
  done
done
echo DONE >> $out
