#!/usr/bin/env python3
"""tr_poses.py -- regenerate coq/gen/Gen{R2,R3,SE2,SE3}.v from /repo/graphslam/pose/*.py and util.py.

Fail-closed: a method body outside the accepted subset becomes `RUnsupported "<why>"` for that
(method, operand kind) only.  Files are rewritten only when their content changes.
Usage: tr_poses.py [--repo /repo] [--out /verif/coq/gen] [--json summary.json]
"""
import argparse
import ast
import json
import os
import sys

sys.path.insert(0, os.path.dirname(os.path.abspath(__file__)))
from symx import Interp, Vec, Mat, Unsupported, show, is_scalar  # noqa: E402

SHORT = {'PoseR2': 'R2', 'PoseR3': 'R3', 'PoseSE2': 'SE2', 'PoseSE3': 'SE3'}
FILES = {'PoseR2': 'pose/r2.py', 'PoseR3': 'pose/r3.py', 'PoseSE2': 'pose/se2.py', 'PoseSE3': 'pose/se3.py'}
KINDS = ['PoseR2', 'PoseR3', 'PoseSE2', 'PoseSE3', 'arr2', 'arr3', 'arr6', 'arr7']
POINT_OF = {'PoseR2': 'PoseR2', 'PoseR3': 'PoseR3', 'PoseSE2': 'PoseR2', 'PoseSE3': 'PoseR3'}
SKIP = {'__new__', 'from_matrix', 'equals'}


def kind_coq(k):
    if k is None:
        return 'KNone'
    if k.startswith('arr'):
        return '(KArr %s)' % k[3:]
    return 'K' + SHORT[k]


def kind_tag(k):
    return SHORT.get(k, k)


def load(repo):
    classes, funcs, consts = {}, {}, {}
    # util.py: module constants and functions
    util = ast.parse(open(os.path.join(repo, 'graphslam/util.py')).read())
    tmp = Interp({}, {}, {})
    for n in util.body:
        if isinstance(n, ast.FunctionDef):
            funcs[n.name] = n
        elif isinstance(n, ast.Assign) and len(n.targets) == 1 and isinstance(n.targets[0], ast.Name):
            try:
                tmp.consts = consts
                consts[n.targets[0].id] = tmp.eval(n.value, {})
            except Unsupported:
                pass
    # BasePose
    base = ast.parse(open(os.path.join(repo, 'graphslam/pose/base_pose.py')).read())
    base_methods = {}
    for n in base.body:
        if isinstance(n, ast.ClassDef) and n.name == 'BasePose':
            for m in n.body:
                if isinstance(m, ast.FunctionDef):
                    base_methods[m.name] = m
    for cname, rel in FILES.items():
        tree = ast.parse(open(os.path.join(repo, 'graphslam', rel)).read())
        cdef = [n for n in tree.body if isinstance(n, ast.ClassDef) and n.name == cname]
        if len(cdef) != 1:
            raise SystemExit("class %s not found in %s" % (cname, rel))
        methods, props, attrs = dict(base_methods), set(), {}
        for m in cdef[0].body:
            if isinstance(m, ast.FunctionDef):
                methods[m.name] = m
                for d in m.decorator_list:
                    if isinstance(d, ast.Name) and d.id == 'property':
                        props.add(m.name)
            elif isinstance(m, ast.Assign) and len(m.targets) == 1 and isinstance(m.targets[0], ast.Name):
                if isinstance(m.value, ast.Constant) and isinstance(m.value.value, int):
                    attrs[m.targets[0].id] = m.value.value
        for mname, m in base_methods.items():
            if mname not in [x.name for x in cdef[0].body if isinstance(x, ast.FunctionDef)]:
                for d in m.decorator_list:
                    if isinstance(d, ast.Name) and d.id == 'property':
                        props.add(mname)
        classes[cname] = {'methods': methods, 'props': props, 'attrs': attrs, 'bases': ('BasePose',),
                          'own': [x.name for x in cdef[0].body if isinstance(x, ast.FunctionDef)]}
    return classes, funcs, consts


def pose_len(interp, cname):
    """length of a well-formed pose of this class = length of identity()."""
    res = interp.explore(lambda: interp.call_function(interp.classes[cname]['methods']['identity'], [None]))
    if len(res) == 1 and res[0][1][0] == 'ret' and isinstance(res[0][1][1], Vec):
        return len(res[0][1][1])
    raise SystemExit("cannot determine the length of %s from identity()" % cname)


def operand(kind, base, lens):
    if kind.startswith('arr'):
        n = int(kind[3:])
        return Vec([('Var', base + i) for i in range(n)], None)
    return Vec([('Var', base + i) for i in range(lens[kind])], kind)


def result_coq(out, selfv=None):
    tag, v = out
    if tag == 'raise':
        return 'RRaise "%s"' % v
    if tag == 'unsupported':
        return 'RUnsupported "%s"' % v.replace('"', "'")
    if v is None and selfv is not None:   # in-place method: the result is the final state of self
        v = selfv
    if isinstance(v, Vec):
        k = kind_coq(v.cls) if v.cls is not None else '(KArr %d%%nat)' % len(v.elems)
        return 'RVec %s [%s]' % (k, '; '.join(show(x) for x in v.elems))
    if isinstance(v, Mat):
        return 'RMat [%s]' % ';\n      '.join('[' + '; '.join(show(x) for x in r) + ']' for r in v.rows)
    if is_scalar(v):
        return 'RScal %s' % show(v)
    if isinstance(v, (int, float)) and not isinstance(v, bool):
        from symx import const
        return 'RScal %s' % show(const(v))
    return 'RUnsupported "result of type %s"' % type(v).__name__


def guards_coq(conds):
    return '[' + '; '.join('mkguard %s %s %s %s' % (show(l), op, show(r), 'true' if t else 'false')
                           for (l, op, r, t) in conds) + ']'


def meth_coq(paths, selfv_of=None):
    items = []
    for i, (conds, out) in enumerate(paths):
        items.append('(%s,\n    %s)' % (guards_coq(conds), result_coq(out, None)))
    return '[' + ';\n   '.join(items) + ']'


def translate_class(interp, cname, lens, summary):
    c = interp.classes[cname]
    sh = SHORT[cname]
    n = lens[cname]
    out = []
    out.append('(* GENERATED by tools/tr_poses.py from graphslam/%s, graphslam/pose/base_pose.py and' % FILES[cname])
    out.append('   graphslam/util.py -- do not edit; regenerated on every run of the checks. *)')
    out.append('From Coq Require Import List ZArith String.')
    out.append('From GS Require Import Expr Meth.')
    out.append('Import ListNotations.')
    out.append('Open Scope Z_scope.')
    out.append('Open Scope string_scope.')
    out.append('')
    out.append('Definition %s_len : nat := %d%%nat.' % (sh, n))
    out.append('Definition %s_compact : nat := %d%%nat.' % (sh, c['attrs'].get('COMPACT_DIMENSIONALITY', -1)))
    out.append('')
    names = []
    # the constructor: environment = the constructor's arguments, flattened
    pdim = lens[POINT_OF[cname]]

    def run_new():
        pos = Vec([('Var', i) for i in range(pdim)])
        if n == pdim:
            return interp.construct(cname, [pos])
        if n - pdim == 1:
            return interp.construct(cname, [pos, ('Var', pdim)])
        return interp.construct(cname, [pos, Vec([('Var', pdim + i) for i in range(n - pdim)])])
    paths = interp.explore(run_new)
    out.append('Definition %s_new : meth :=\n  %s.\n' % (sh, meth_coq(paths)))
    summary['%s_new' % sh] = [p[1][0] if p[1][0] != 'ret' else 'ok' for p in paths]
    for mname in sorted(c['methods']):
        if mname in SKIP:
            continue
        fdef = c['methods'][mname]
        params = [a.arg for a in fdef.args.args]
        is_cls = any(isinstance(d, ast.Name) and d.id == 'classmethod' for d in fdef.decorator_list)
        cm = mname.strip('_')
        if is_cls:
            if len(params) != 1:
                continue
            paths = interp.explore(lambda: interp.call_function(fdef, [None]))
            dn = '%s_%s' % (sh, cm)
            out.append('Definition %s : meth :=\n  %s.\n' % (dn, meth_coq(paths)))
            names.append(dn)
            summary[dn] = [p[1][0] if p[1][0] != 'ret' else 'ok' for p in paths]
            continue
        if len(params) == 1:
            def run():
                sv = operand(cname, 0, lens)
                r = interp.call_function(fdef, [sv])
                return sv if r is None else r
            paths = interp.explore(run)
            dn = '%s_%s' % (sh, cm)
            out.append('Definition %s : meth :=\n  %s.\n' % (dn, meth_coq(paths)))
            names.append(dn)
            summary[dn] = [p[1][0] if p[1][0] != 'ret' else 'ok' for p in paths]
            continue
        if len(params) == 2:
            if mname.startswith('jacobian'):
                kinds = sorted({cname, POINT_OF[cname]})
            else:
                kinds = KINDS
            table = []
            for k in kinds:
                def run(k=k):
                    sv = operand(cname, 0, lens)
                    ov = operand(k, n, lens)
                    return interp.call_function(fdef, [sv, ov])
                paths = interp.explore(run)
                dn = '%s_%s__%s' % (sh, cm, kind_tag(k))
                out.append('Definition %s : meth :=\n  %s.\n' % (dn, meth_coq(paths)))
                names.append(dn)
                table.append((k, dn))
                summary[dn] = [p[1][0] if p[1][0] != 'ret' else 'ok' for p in paths]
            out.append('Definition %s_%s (k : kind) : meth :=\n  match k with' % (sh, cm))
            for k, dn in table:
                pat = kind_coq(k).strip('()')
                if k.startswith('arr'):
                    pat = 'KArr %s%%nat' % k[3:]
                out.append('  | %s => %s' % (pat, dn))
            out.append('  | _ => [([], RUnsupported "operand kind not enumerated")]\n  end.\n')
            continue
    return '\n'.join(out) + '\n', names


def write_if_changed(path, text):
    if os.path.exists(path) and open(path).read() == text:
        return False
    with open(path, 'w') as f:
        f.write(text)
    return True


def main():
    ap = argparse.ArgumentParser()
    ap.add_argument('--repo', default='/repo')
    ap.add_argument('--out', default=os.path.join(os.path.dirname(os.path.abspath(__file__)), '..', 'coq', 'gen'))
    ap.add_argument('--json', default=None)
    a = ap.parse_args()
    classes, funcs, consts = load(a.repo)
    interp = Interp(classes, funcs, consts)
    lens = {c: pose_len(interp, c) for c in FILES}
    summary = {'lens': lens, 'defs': {}}
    changed = []
    for cname in FILES:
        text, names = translate_class(interp, cname, lens, summary['defs'])
        p = os.path.join(a.out, 'Gen%s.v' % SHORT[cname])
        if write_if_changed(p, text):
            changed.append(p)
    summary['changed'] = changed
    if a.json:
        with open(a.json, 'w') as f:
            json.dump(summary, f, indent=1)
    return 0


if __name__ == '__main__':
    sys.exit(main())
