"""corr_g2o.py -- correspondence 4.4 for the .g2o writer/reader (properties C13, C14).

The hand-written Gallina model coq/lib/G2OModel.v is executed inside Coq (instance coq/lib/G2OSym.v:
numbers are atoms = indices into a table kept here) and compared with graphslam on the same inputs:
  export side : random in-memory graphs -> model's lines vs the file Graph.to_g2o writes (token by token,
                float(tok) bitwise == the number in that slot) or the exception class it raises;
  import side : random files -> model's graph vs Graph.from_g2o (ids, kinds, order, values bitwise with the
                model's symbolic wrap/normq evaluated by the implementation's own functions, information,
                resolved offsets, warnings) and the five loaders of graphslam/load.py.
Also the direct oracles on the implementation (used to produce replays): k-cycle round trips (C13) and an
independent regex parser (C14)."""
import copy
import importlib.util
import logging
import math
import os
import re
import shutil
import struct
import sys
import tempfile

import numpy as np

import vlib

sys.path.insert(0, vlib.REPO)
from graphslam.graph import Graph  # noqa: E402
from graphslam.vertex import Vertex  # noqa: E402
from graphslam.edge.base_edge import BaseEdge  # noqa: E402
from graphslam.edge.edge_odometry import EdgeOdometry  # noqa: E402
from graphslam.edge.edge_landmark import EdgeLandmark  # noqa: E402
from graphslam.pose.r2 import PoseR2  # noqa: E402
from graphslam.pose.r3 import PoseR3  # noqa: E402
from graphslam.pose.se2 import PoseSE2  # noqa: E402
from graphslam.pose.se3 import PoseSE3  # noqa: E402
from graphslam import util as gs_util  # noqa: E402
from graphslam import load as gs_load  # noqa: E402
from graphslam.g2o_parameters import G2OParameterSE2Offset, G2OParameterSE3Offset  # noqa: E402

CLS = {'R2': PoseR2, 'R3': PoseR3, 'SE2': PoseSE2, 'SE3': PoseSE3}
KIND = {PoseR2: 'R2', PoseR3: 'R3', PoseSE2: 'SE2', PoseSE3: 'SE3'}
LEN = {'R2': 2, 'R3': 3, 'SE2': 3, 'SE3': 7}
CDIM = {'R2': 2, 'R3': 3, 'SE2': 3, 'SE3': 6}
KCODE = {2: 'R2', 3: 'R3', 12: 'SE2', 13: 'SE3'}
COQK = {'R2': 'KR2', 'R3': 'KR3', 'SE2': 'KSE2', 'SE3': 'KSE3'}
ERR = {1: 'NotImplementedError', 2: 'ValueError', 3: 'KeyError', 4: 'AssertionError', 5: 'Malformed'}
VTAG = {'R2': 'VERTEX_XY', 'R3': 'VERTEX_TRACKXYZ', 'SE2': 'VERTEX_SE2', 'SE3': 'VERTEX_SE3:QUAT'}
WS = ' \t\n\r\x0b\x0c\x1c\x1d\x1e\x1f'
PI = math.pi


def bits(x):
    return struct.pack('<d', float(x))


def hexbits(x):
    return bits(x).hex()


# ------------------------------------------------------------------------------------------------
# custom edge types: tests/edge_types.py of the repository if usable, else equivalents defined here
def load_custom_types():
    p = os.path.join(vlib.REPO, 'tests', 'edge_types.py')
    try:
        spec = importlib.util.spec_from_file_location('gs_tests_edge_types', p)
        m = importlib.util.module_from_spec(spec)
        spec.loader.exec_module(m)
        return {'NN': m.EdgeWithoutToG2OWithoutFromG2O, 'WN': m.EdgeWithToG2OWithoutFromG2O,
                'NR': m.EdgeWithoutToG2OWithFromG2O, 'WR': m.EdgeWithToG2OWithFromG2O}, 'tests/edge_types.py'
    except Exception:  # pragma: no cover
        from graphslam.util import upper_triangular_matrix_to_full_matrix as ut

        class NN(BaseEdge):
            def is_valid(self):
                return self._is_valid()

            def calc_error(self):
                return np.array([1.0, 2.0])

        class WN(NN):
            def to_g2o(self):
                return "TestEdge {} {} {} ".format(self.vertex_ids[0], self.estimate[0], self.estimate[1]) + \
                    " ".join([str(x) for x in self.information[np.triu_indices(2, 0)]]) + "\n"

        class NR(NN):
            @classmethod
            def from_g2o(cls, line, g2o_params_or_none=None):
                if line.startswith("TestEdge "):
                    numbers = line[len("TestEdge "):].split()
                    arr = np.array([float(n) for n in numbers[1:]], dtype=np.float64)
                    return cls([int(numbers[0])], ut(arr[2:], 2), arr[:2])
                return None

        class WR(WN, NR):
            pass
        return {'NN': NN, 'WN': WN, 'NR': NR, 'WR': WR}, 'harness fallback'


CUSTOM, CUSTOM_SRC = load_custom_types()
# (tag, nids, nest, dim, writes, reads) of each custom type, as the model's ctype
CT = {'NN': ('TestEdge', 1, 2, 2, False, False), 'WN': ('TestEdge', 1, 2, 2, True, False),
      'NR': ('TestEdge', 1, 2, 2, False, True), 'WR': ('TestEdge', 1, 2, 2, True, True)}
CT_OF_CLASS = {v: k for k, v in CUSTOM.items()}


def coq_ct(name):
    t = CT[name]
    return '(mkCT %s %d%%nat %d%%nat %d%%nat %s %s)' % (coq_str(t[0]), t[1], t[2], t[3],
                                                        'true' if t[4] else 'false', 'true' if t[5] else 'false')


# ------------------------------------------------------------------------------------------------
# Coq literals
def coq_str(s):
    parts, cur = [], ''
    for c in s:
        o = ord(c)
        if 32 <= o <= 126:
            cur += '""' if c == '"' else c
        else:
            if cur:
                parts.append('"%s"' % cur)
                cur = ''
            if o > 255:
                raise ValueError('non-latin1 character')
            parts.append('(chz %d)' % o)
    if cur or not parts:
        parts.append('"%s"' % cur)
    if len(parts) == 1:
        return parts[0]
    return '(cat [%s])' % '; '.join(parts)


def coq_z(z):
    return '(%d)' % int(z)


def coq_list(xs):
    return '[' + '; '.join(xs) + ']'


# ------------------------------------------------------------------------------------------------
# numbers
class Vals:
    """Distinct doubles (so that a swapped field is visible), spanning the quantifier of C13."""

    def __init__(self, rng):
        self.rng = rng
        self.used = set()
        self.hist = {}

    def _raw(self):
        r = self.rng
        c = r.choice(['typ', 'typ', 'wide', 'wide', 'sub', 'int', 'intbig', 'small', 'pm0'])
        self.hist[c] = self.hist.get(c, 0) + 1
        if c == 'typ':
            return r.uniform(-10, 10)
        if c == 'wide':
            return r.choice([-1, 1]) * r.uniform(1, 10) * 10.0 ** r.randint(-300, 299)
        if c == 'sub':
            return r.choice([-1, 1]) * r.randint(1, 2 ** 52 - 1) * 2.0 ** -1074
        if c == 'int':
            return float(r.randint(-1000, 1000))
        if c == 'intbig':
            return float(r.choice([-1, 1]) * r.randint(10 ** 15, 10 ** 23))
        if c == 'small':
            return r.uniform(-1, 1) * 1e-5
        return r.choice([0.0, -0.0])

    def fresh(self):
        for _ in range(100):
            x = self._raw()
            if bits(x) not in self.used:
                self.used.add(bits(x))
                return x
        return x

    def vec(self, n):
        return [self.fresh() for _ in range(n)]

    def moderate(self, n):
        out = []
        while len(out) < n:
            x = self.rng.uniform(-10, 10)
            if bits(x) not in self.used:
                self.used.add(bits(x))
                out.append(x)
        return out

    def angle(self):
        r = self.rng
        c = r.choice(['in', 'in', 'pi', 'near', 'out', 'big', 'tiny'])
        self.hist['ang_' + c] = self.hist.get('ang_' + c, 0) + 1
        if c == 'in':
            x = r.uniform(-PI, PI)
        elif c == 'pi':
            x = r.choice([PI, -PI, math.nextafter(PI, 0), math.nextafter(-PI, 0), math.nextafter(PI, 4)])
        elif c == 'near':
            x = r.choice([PI, -PI]) + r.uniform(-1e-9, 1e-9)
        elif c == 'out':
            x = r.uniform(-20, 20)
        elif c == 'big':
            x = r.uniform(-1e6, 1e6)
        else:
            x = r.uniform(-1, 1) * 10.0 ** r.randint(-300, -10)
        self.used.add(bits(x))
        return x

    def quat(self, unit=True):
        r = self.rng
        q = [r.gauss(0, 1) for _ in range(4)]
        c = r.choice(['any', 'wneg', 'wneg', 'wpos', 'wzero', 'nonunit'])
        self.hist['q_' + c] = self.hist.get('q_' + c, 0) + 1
        if c == 'wneg':
            q[3] = -abs(q[3])
        elif c == 'wpos':
            q[3] = abs(q[3])
        elif c == 'wzero':
            q[3] = r.choice([0.0, -0.0])
        n = math.sqrt(sum(v * v for v in q))
        if unit and c != 'nonunit':
            q = [v / n for v in q]
        for v in q:
            self.used.add(bits(v))
        return q

    def info(self, n, symmetric=True, diagonal=False):
        m = np.zeros((n, n), dtype=np.float64)
        for i in range(n):
            for j in range(i, n):
                if diagonal and i != j:
                    continue
                x = self.fresh()
                m[i, j] = x
                m[j, i] = x if symmetric else self.fresh()
        return m

    def info_moderate(self, n):
        a = np.array([self.moderate(n) for _ in range(n)])
        return a.dot(a.T) + np.eye(n)


def rand_id(rng):
    c = rng.choice(['small', 'small', 'small', 'neg', 'huge', 'zero'])
    if c == 'small':
        return rng.randint(0, 60)
    if c == 'neg':
        return -rng.randint(1, 10 ** 6)
    if c == 'huge':
        v = rng.choice([-1, 1]) * rng.randint(2 ** 31, 2 ** 80)
        return v if abs(v) != vlib.MAGIC else v + 1
    return 0


def make_pose(kind, vals, rng, v):
    """a pose object of the given kind; SE(2) angles are sometimes left unwrapped (assigned after construction)"""
    if kind == 'R2':
        return PoseR2(vals.vec(2))
    if kind == 'R3':
        return PoseR3(vals.vec(3))
    if kind == 'SE2':
        p = PoseSE2(vals.vec(2), 0.0)
        a = vals.angle()
        if rng.random() < 0.5:
            p[2] = a                      # raw value in memory (possibly outside [-pi, pi))
        else:
            p[2] = gs_util.neg_pi_to_pi(a)  # what the constructor would have stored
        return p
    return PoseSE3(vals.vec(3), vals.quat(unit=rng.random() < 0.8))


# ------------------------------------------------------------------------------------------------
# snapshot of a Python graph: plain structure with float lists (bit patterns are compared via bits())
def snap_pose(p):
    return [float(x) for x in np.asarray(p).ravel()]


def snapshot(g):
    ps = []
    for key, par in (g._g2o_params or {}).items():
        ps.append({'pk': 'SE2' if key[0] == 'PARAMS_SE2OFFSET' else ('SE3' if key[0] == 'PARAMS_SE3OFFSET' else str(key[0])),
                   'id': key[1], 'own_key': list(par.key), 'kind': KIND.get(type(par.value), type(par.value).__name__),
                   'val': snap_pose(par.value)})
    vs = [{'id': v.id, 'kind': KIND.get(type(v.pose), type(v.pose).__name__), 'val': snap_pose(v.pose)} for v in g._vertices]
    es = []
    for e in g._edges:
        d = {'ids': list(e.vertex_ids), 'est': snap_pose(e.estimate),
             'info': [[float(x) for x in row] for row in np.asarray(e.information)]}
        if type(e) is EdgeOdometry:
            d.update(t='odo', k=KIND.get(type(e.estimate), type(e.estimate).__name__))
        elif type(e) is EdgeLandmark:
            d.update(t='lmk', ko=KIND.get(type(e.offset), type(e.offset).__name__),
                     ke=KIND.get(type(e.estimate), type(e.estimate).__name__), off=snap_pose(e.offset), oid=e.offset_id)
        elif type(e) in CT_OF_CLASS:
            d.update(t='cus', ct=CT_OF_CLASS[type(e)])
        else:
            d.update(t='other:' + type(e).__name__)
        es.append(d)
    return {'params': ps, 'verts': vs, 'edges': es}


def same_bits(a, b):
    return len(a) == len(b) and all(bits(x) == bits(y) for x, y in zip(a, b))


def same_mat(a, b):
    return len(a) == len(b) and all(same_bits(x, y) for x, y in zip(a, b))


def diff_snapshots(a, b, what=''):
    """first difference between two snapshots (None if bitwise identical)"""
    for sec in ('params', 'verts', 'edges'):
        if len(a[sec]) != len(b[sec]):
            return '%s: %d %s vs %d' % (what, len(a[sec]), sec, len(b[sec]))
        for n, (x, y) in enumerate(zip(a[sec], b[sec])):
            for k in sorted(set(x) | set(y)):
                if k == 'own_key':
                    continue
                u, v = x.get(k), y.get(k)
                if k in ('val', 'est', 'off'):
                    ok = u is not None and v is not None and same_bits(u, v)
                elif k == 'info':
                    ok = same_mat(u, v)
                else:
                    ok = u == v
                if not ok:
                    return '%s: %s[%d].%s: %r vs %r' % (what, sec, n, k, u, v)
    return None


# ------------------------------------------------------------------------------------------------
# snapshot -> Coq term over atoms
class Atoms:
    def __init__(self):
        self.table = []

    def at(self, x):
        self.table.append(float(x))
        return 'At %d' % (len(self.table) - 1)

    def lst(self, xs):
        return coq_list([self.at(x) for x in xs])

    def mat(self, m):
        return coq_list([self.lst(r) for r in m])

    def classes(self):
        """numeric equality classes of the atoms (x == y as doubles; NaN in no class) and the class of 0.0"""
        cls, reps = [], []
        zc = -1
        for k, x in enumerate(self.table):
            if x != x:
                continue
            for c, r in enumerate(reps):
                if r == x:
                    cls.append((k, c))
                    break
            else:
                reps.append(x)
                cls.append((k, len(reps) - 1))
        for c, r in enumerate(reps):
            if r == 0.0:
                zc = c
        return '[' + '; '.join('(%d, %d)' % p for p in cls) + ']', zc


def coq_graph(s, atoms):
    ps = ['((P%s, %s), %s)' % (p['pk'], coq_z(p['id']), atoms.lst(p['val'])) for p in s['params']]
    vs = ['mkV %s %s %s' % (coq_z(v['id']), COQK[v['kind']], atoms.lst(v['val'])) for v in s['verts']]
    es = []
    for e in s['edges']:
        if e['t'] == 'odo':
            es.append('EOdo %s %s %s %s %s' % (COQK[e['k']], coq_z(e['ids'][0]), coq_z(e['ids'][1]), atoms.lst(e['est']), atoms.mat(e['info'])))
        elif e['t'] == 'lmk':
            es.append('ELmk %s %s %s %s %s %s %s %s' % (COQK[e['ko']], COQK[e['ke']], coq_z(e['ids'][0]), coq_z(e['ids'][1]),
                                                        atoms.lst(e['est']), atoms.mat(e['info']), atoms.lst(e['off']),
                                                        'None' if e['oid'] is None else '(Some %s)' % coq_z(e['oid'])))
        else:
            es.append('ECus %s %s %s %s' % (coq_ct(e['ct']), coq_list([coq_z(i) for i in e['ids']]), atoms.lst(e['est']), atoms.mat(e['info'])))
    return '(@mkG sym %s %s %s)' % (coq_list(ps), coq_list(vs), coq_list(es))


HEADER = ('From Coq Require Import List ZArith String.\nFrom GS Require Import G2OModel G2OSym.\nImport ListNotations.\n'
          'Open Scope string_scope.\nOpen Scope list_scope.\nOpen Scope Z_scope.\n')


def run_coq(prefix, exprs, per_file=20, timeout=600):
    """exprs: list of Coq expressions of type list Z (each starting with MAGIC).  Returns (list of int lists or
    None per expression, list of coq error texts)."""
    files = []
    for n in range(0, len(exprs), per_file):
        src = HEADER + ''.join('Eval vm_compute in (%s).\n' % e for e in exprs[n:n + per_file])
        files.append(('%s_%03d' % (prefix, n // per_file), src))
    res = vlib.coq_eval_files(files, timeout=timeout)
    out, errs = [], []
    for n, (name, _) in enumerate(files):
        rc, txt = res[name]
        want = len(exprs[n * per_file:(n + 1) * per_file])
        chunks = vlib.split_magic(vlib.parse_ints(txt)) if rc == 0 else []
        if rc != 0 or len(chunks) != want:
            errs.append({'file': name, 'rc': rc, 'out': txt[-1500:]})
            out.extend([None] * want)
        else:
            out.extend(chunks)
    return out, errs


# ------------------------------------------------------------------------------------------------
# random in-memory graphs (export side).  flavour 'ok' = inside C13's quantifier and expressible;
# 'any' = also what the format cannot express, custom edges, duplicate ids, asymmetric information.
def gen_graph(rng, flavour='any', moderate=False, dims=None):
    vals = Vals(rng)
    dims = dims or rng.choice(['2d', '3d', 'mixed'])
    nv = rng.randint(2, 7)
    kinds = []
    for _ in range(nv):
        if dims == '2d':
            kinds.append(rng.choice(['SE2', 'SE2', 'R2']))
        elif dims == '3d':
            kinds.append(rng.choice(['SE3', 'SE3', 'R3']))
        else:
            kinds.append(rng.choice(['SE2', 'SE3', 'R2', 'R3']))
    # make sure there is at least one pose vertex
    if flavour in ('ok', 'defect') and not any(k in ('SE2', 'SE3') for k in kinds):
        kinds[0] = 'SE2' if dims != '3d' else 'SE3'
    ids = []
    while len(ids) < nv:
        i = rand_id(rng)
        if i not in ids or (flavour == 'any' and rng.random() < 0.05):
            ids.append(i)

    def pose(kind):
        if moderate:
            if kind == 'SE2':
                return PoseSE2(vals.moderate(2), rng.uniform(-PI, PI))
            if kind == 'SE3':
                return PoseSE3(vals.moderate(3), vals.quat())
            return CLS[kind](vals.moderate(LEN[kind]))
        return make_pose(kind, vals, rng, None)

    def info(n):
        if moderate:
            return vals.info_moderate(n)
        if rng.random() < 0.08:
            # a whole matrix of uniformly tiny entries (other units, a very weak prior): 2^-600 .. 2^-1000 times an ordinary non-diagonal matrix --
            # every entry is an ordinary double although the sum of their squares underflows; or no information at all
            return vals.info_moderate(n) * 2.0 ** -rng.choice([600, 800, 1000]) if rng.random() < 0.8 else np.zeros((n, n))
        return vals.info(n, symmetric=(flavour in ('ok', 'defect') or rng.random() < 0.85), diagonal=rng.random() < 0.1)

    verts = [Vertex(i, pose(k), fixed=rng.random() < 0.2) for i, k in zip(ids, kinds)]
    # effective kind per id (the LAST vertex with an id wins in Graph._initialize)
    eff = {}
    for i, k in zip(ids, kinds):
        eff[i] = k
    by_kind = {}
    for i, k in eff.items():
        by_kind.setdefault(k, []).append(i)
    params = {}
    edges = []
    ne = rng.randint(1, 8)
    tries = 0
    while len(edges) < ne and tries < 200:
        tries += 1
        c = rng.choice(['odo', 'odo', 'lmk', 'lmk', 'cus'] if flavour == 'any' else ['odo', 'odo', 'lmk', 'lmk'])
        okf = flavour in ('ok', 'defect')
        if c == 'odo':
            ks = [k for k in by_kind if (k in ('SE2', 'SE3') or flavour == 'any')]
            if not ks:
                continue
            k = rng.choice(ks)
            i, j = rng.choice(by_kind[k]), rng.choice(by_kind[k])
            edges.append(EdgeOdometry([i, j], info(CDIM[k]), pose(k)))
        elif c == 'lmk':
            pairs = [(a, b) for a, b in (('SE2', 'R2'), ('SE3', 'R3'), ('R2', 'R2'), ('R3', 'R3'))
                     if a in by_kind and b in by_kind and (flavour == 'any' or a in ('SE2', 'SE3'))]
            if not pairs:
                continue
            a, b = rng.choice(pairs)
            i, j = rng.choice(by_kind[a]), rng.choice(by_kind[b])
            if a == 'SE2':
                if flavour in ('ok', 'defect') or rng.random() < 0.7:
                    off = PoseSE2([rng.choice([0.0, -0.0]), rng.choice([0.0, -0.0])], rng.choice([0.0, -0.0]))
                    if rng.random() < 0.3:
                        off[2] = -0.0
                else:
                    off = pose('SE2')
                oid = rng.choice([None, 0, rand_id(rng)])
            elif a == 'SE3':
                r = rng.random()
                have = [k for k in params if k[0] == 'PARAMS_SE3OFFSET']
                if have and r < 0.4:
                    key = rng.choice(have)
                    oid = key[1]
                    off = PoseSE3(params[key].value[:3], params[key].value[3:])   # equal copy
                    if flavour == 'any' and rng.random() < 0.25:
                        off = pose('SE3')                                          # conflicting
                else:
                    oid = rand_id(rng)
                    off = pose('SE3')
                    if (flavour == 'any' and rng.random() < 0.12):
                        oid = None
                    elif rng.random() < 0.5:
                        # as from_g2o would leave it: parameter present in the dictionary
                        key = ('PARAMS_SE3OFFSET', oid)
                        if key not in params:
                            params[key] = G2OParameterSE3Offset(key, off)
                        else:
                            off = PoseSE3(params[key].value[:3], params[key].value[3:])
                # a second edge may share a not-yet-registered id with an equal or different offset
                if flavour == 'any' and oid is not None and rng.random() < 0.15:
                    edges.append(EdgeLandmark([i, j], info(3), pose('R3'), PoseSE3(off[:3], off[3:]) if rng.random() < 0.5 else pose('SE3'), oid))
            else:
                off = pose(a)
                oid = rng.choice([None, 1])
            edges.append(EdgeLandmark([i, j], info(CDIM[b]), pose(b), off, oid))
        else:
            ct = rng.choice(['NN', 'WN', 'NR', 'WR'])
            i = rng.choice(list(eff))
            edges.append(CUSTOM[ct]([i], info(2), np.array(vals.vec(2), dtype=np.float64)))
    if edges and rng.random() < 0.3:
        # the same measurement recorded twice: an exact duplicate of an edge (two textually identical lines in the file) is TWO edges
        e0 = edges[rng.randrange(len(edges))]
        for _ in range(rng.choice([1, 1, 2])):
            edges.insert(rng.randint(0, len(edges)), copy.deepcopy(e0))
        vals.hist['duplicate_edges'] = vals.hist.get('duplicate_edges', 0) + 1
    if flavour == 'defect':
        # exactly one thing the format cannot express, anywhere among the edges
        def fresh_id():
            while True:
                i = rand_id(rng)
                if i not in eff:
                    eff[i] = None
                    return i
        d = rng.choice(['odo_rn', 'lmk_rn', 'se2_off', 'se2_off', 'oid_none', 'conflict_edges', 'conflict_param'])
        vals.hist['defect_' + d] = vals.hist.get('defect_' + d, 0) + 1
        extra = []
        if d == 'odo_rn':
            k = rng.choice(['R2', 'R3'])
            a, b = fresh_id(), fresh_id()
            verts += [Vertex(a, pose(k)), Vertex(b, pose(k))]
            extra = [EdgeOdometry([a, b], info(CDIM[k]), pose(k))]
        elif d == 'lmk_rn':
            k = rng.choice(['R2', 'R3'])
            a, b = fresh_id(), fresh_id()
            verts += [Vertex(a, pose(k)), Vertex(b, pose(k))]
            extra = [EdgeLandmark([a, b], info(CDIM[k]), pose(k), pose(k), rng.choice([None, 0]))]
        elif d == 'se2_off':
            a, b = fresh_id(), fresh_id()
            verts += [Vertex(a, pose('SE2')), Vertex(b, pose('R2'))]
            off = PoseSE2([0.0, 0.0], 0.0)
            off[rng.randrange(3)] = rng.choice([1.0, -1e-300, 5e-324, 0.25, float('nan')])
            extra = [EdgeLandmark([a, b], info(2), pose('R2'), off, rng.choice([None, 0, 3]))]
        else:
            a, b = fresh_id(), fresh_id()
            verts += [Vertex(a, pose('SE3')), Vertex(b, pose('R3'))]
            o = fresh_id()
            if d == 'oid_none':
                extra = [EdgeLandmark([a, b], info(3), pose('R3'), pose('SE3'), None)]
            elif d == 'conflict_edges':
                off = pose('SE3')
                off2 = PoseSE3(off[:3], off[3:])
                off2[rng.randrange(7)] += 1.0
                extra = [EdgeLandmark([a, b], info(3), pose('R3'), off, o), EdgeLandmark([a, b], info(3), pose('R3'), off2, o)]
            else:
                off = pose('SE3')
                off2 = PoseSE3(off[:3], off[3:])
                off2[rng.randrange(7)] += 1.0
                params[('PARAMS_SE3OFFSET', o)] = G2OParameterSE3Offset(('PARAMS_SE3OFFSET', o), off2)
                extra = [EdgeLandmark([a, b], info(3), pose('R3'), off, o)]
        at = rng.randint(0, len(edges))
        edges[at:at] = extra
    # unrelated parameters (as a file would have defined them)
    for _ in range(rng.choice([0, 0, 1, 2])):
        if rng.random() < 0.5:
            key = ('PARAMS_SE2OFFSET', rand_id(rng))
            params.setdefault(key, G2OParameterSE2Offset(key, pose('SE2')))
        else:
            key = ('PARAMS_SE3OFFSET', rand_id(rng))
            params.setdefault(key, G2OParameterSE3Offset(key, pose('SE3')))
    if rng.random() < 0.5:
        items = list(params.items())
        rng.shuffle(items)
        params = dict(items)
    g = Graph(edges, verts)
    if params or rng.random() < 0.5:
        g._g2o_params = params
    return g


def is_ws_free(tok):
    return tok != '' and not any(c in WS for c in tok)


def export_case_expr(g):
    s = snapshot(g)
    atoms = Atoms()
    term = coq_graph(s, atoms)
    cls, zc = atoms.classes()
    return s, atoms, 'dump_export (sexport %s %s %s)' % (cls, coq_z(zc), term)


def impl_export(g):
    d = tempfile.mkdtemp(prefix='g2o_', dir=os.path.join(vlib.BUILD, 'corr'))
    p = os.path.join(d, 'g.g2o')
    try:
        try:
            g.to_g2o(p)
        except Exception as ex:  # noqa
            left = None
            if os.path.exists(p):
                with open(p, newline='') as f:
                    left = f.read()
            return ('raise', type(ex).__name__, str(ex), left)
        with open(p, newline='') as f:
            return ('ok', f.read())
    finally:
        shutil.rmtree(d, ignore_errors=True)


def compare_export(chunk, atoms, impl, stats, fchunk=None):
    """chunk: ints from the model.  Returns None or a description of the disagreement."""
    if chunk[0] == 0 and fchunk is not None and impl[0] == 'raise':
        # what the refused call left on disk
        if fchunk[0] == 0:
            stats['refused_file_untouched'] = stats.get('refused_file_untouched', 0) + 1
            if impl[3] is not None:
                return 'model: the refused export does not open the file; implementation left %d bytes' % len(impl[3])
        else:
            stats['refused_partial_file'] = stats.get('refused_partial_file', 0) + 1
            if impl[3] is None:
                return 'model: the refused export leaves a partial file; implementation left none'
            why = compare_export(fchunk, atoms, ('ok', impl[3]), {})
            if why:
                return 'partial file left by the refused export: ' + why
    if chunk[0] == 0:
        want = ERR[chunk[1]]
        stats['raise_' + want] = stats.get('raise_' + want, 0) + 1
        if impl[0] != 'raise' or impl[1] != want:
            return 'model: export raises %s; implementation: %s' % (want, impl[:2] if impl[0] == 'raise' else 'wrote a file')
        return None
    text = ''.join(chr(c) for c in chunk[1:])
    if impl[0] != 'ok':
        return 'model: export writes %d lines; implementation raised %s(%s)' % (text.count('\n'), impl[1], impl[2])
    mlines = text.split('\n')
    ilines = impl[1].split('\n')
    if mlines[-1] != '' or ilines[-1] != '':
        return 'text does not end with a newline'
    mlines, ilines = mlines[:-1], ilines[:-1]
    if len(mlines) != len(ilines):
        return 'model writes %d lines, implementation %d' % (len(mlines), len(ilines))
    stats['lines'] = stats.get('lines', 0) + len(mlines)
    for n, (ml, il) in enumerate(zip(mlines, ilines)):
        mt, it = ml.split(' '), il.split(' ')
        if len(mt) != len(it):
            return 'line %d: model %d fields, implementation %d: %r vs %r' % (n, len(mt), len(it), ml, il)
        for a, b in zip(mt, it):
            if a.startswith('#'):
                x = atoms.table[int(a[1:])]
                stats['num_tokens'] = stats.get('num_tokens', 0) + 1
                if not is_ws_free(b):
                    return 'line %d: token %r is empty or contains whitespace' % (n, b)
                try:
                    y = float(b)
                except ValueError:
                    return 'line %d: implementation wrote %r where the model has the number %r' % (n, b, x)
                if bits(x) != bits(y):
                    return 'line %d: float(%r) = %r is not the number %r (%s) of that slot: %r' % (n, b, y, x, hexbits(x), il)
                if b == str(np.float64(x)):
                    stats['tok_is_str'] = stats.get('tok_is_str', 0) + 1
            else:
                if a != b:
                    return 'line %d: model token %r, implementation %r: %r' % (n, a, b, il)
                stats['other_tokens'] = stats.get('other_tokens', 0) + 1
    return None


def canon_applicable(s):
    """the hypotheses of C13_roundtrip that a snapshot can violate: symmetric information, no custom edge that writes itself"""
    for e in s['edges']:
        if e['t'] == 'cus' and CT[e['ct']][4]:
            return False
        if not same_mat(e['info'], [list(r) for r in zip(*e['info'])]):
            return False
    return True


def corner_graphs():
    """deterministic corner cases that always run first: every way an SE(2) landmark offset can differ from the identity (each component alone,
    rotation only, translation only), an exact duplicate of an edge, an SE(3) half-turn measurement with scalar part -0.0"""
    out = []
    for off in ([0.0, 0.0, 0.3], [0.0, 0.0, PI / 2], [0.0, 0.0, -3.0], [0.25, 0.0, 0.0], [0.0, -1.5, 0.0], [0.1, 0.2, 0.3], [0.0, 0.0, 0.0]):
        vs = [Vertex(1, PoseSE2([1.0, 2.0], 0.5)), Vertex(2, PoseR2([3.0, -1.0]))]
        es = [EdgeLandmark([1, 2], np.array([[2.0, 0.5], [0.5, 1.0]]), PoseR2([0.5, 0.25]), PoseSE2(off[:2], off[2]), None)]
        out.append(Graph(es, vs))
    vs = [Vertex(1, PoseSE2([0.0, 0.0], 0.0)), Vertex(2, PoseSE2([1.0, 0.0], 0.1))]
    e = EdgeOdometry([1, 2], np.eye(3), PoseSE2([1.0, 0.0], 0.1))
    out.append(Graph([e, copy.deepcopy(e), copy.deepcopy(e)], vs))
    vs = [Vertex(1, PoseSE3([0.0, 0.0, 0.0], [0.0, 0.0, 0.0, 1.0])), Vertex(2, PoseSE3([1.0, 0.0, 0.0], [1.0, 0.0, 0.0, 0.0]))]
    out.append(Graph([EdgeOdometry([1, 2], np.eye(6), PoseSE3([1.0, 0.0, 0.0], [1.0, 0.0, 0.0, -0.0]))], vs))
    return out


def run_export(rng, n, prefix):
    """n random graphs through model export and Graph.to_g2o; for those inside the hypotheses of C13_roundtrip also
    the model's canon g (and canon (canon g)) against the graph re-imported after one (two) real cycles."""
    stats, cases = {}, []
    for g in corner_graphs():
        s, atoms, expr = export_case_expr(g)
        cases.append((g, s, atoms, expr))
    for k in range(n):
        g = gen_graph(rng, ['ok', 'ok', 'any', 'ok', 'ok', 'defect'][k % 6])
        s, atoms, expr = export_case_expr(g)
        cases.append((g, s, atoms, expr))
    exprs = [c[3] for c in cases]
    fidx = {}
    for k, (g, s, atoms, expr) in enumerate(cases):
        if py_refusal(s) is not None:
            fidx[k] = len(exprs)
            exprs.append(expr.replace('dump_export (sexport ', 'dump_export_file (sexport_file ', 1))
    cidx = {}
    for k, (g, s, atoms, expr) in enumerate(cases):
        if py_refusal(s) is None and canon_applicable(s):
            cls, zc = atoms.classes()
            term = coq_graph(s, Atoms())
            cidx[k] = len(exprs)
            exprs.append('dump_graph (scanon %s %s %s)' % (cls, coq_z(zc), term))
            exprs.append('dump_graph (scanon %s %s (scanon %s %s %s))' % (cls, coq_z(zc), cls, coq_z(zc), term))
    chunks, errs = run_coq(prefix, exprs)
    dis = []
    agree = 0
    for k, (g, s, atoms, expr) in enumerate(cases):
        ch = chunks[k]
        if ch is None:
            continue
        why = compare_export(ch, atoms, impl_export(g), stats, chunks[fidx[k]] if k in fidx else None)
        if not why and k in cidx and chunks[cidx[k]] is not None and chunks[cidx[k] + 1] is not None:
            try:
                g1 = cycle(build_graph(s))
                g2 = cycle(g1)
            except Exception as ex:  # noqa
                why = 'model: expressible; implementation cycle raised %s: %s' % (type(ex).__name__, ex)
            else:
                for nm, chn, gi in (('canon g', chunks[cidx[k]], g1), ('canon (canon g)', chunks[cidx[k] + 1], g2)):
                    rd = Reader(chn[1:])
                    mg = eval_graph(rd.graph(), atoms.table)
                    why = diff_snapshots(mg, snapshot(gi), 'model %s vs re-imported graph' % nm)
                    if why:
                        break
                    stats['canon_checked'] = stats.get('canon_checked', 0) + 1
        if why:
            dis.append({'side': 'export', 'why': why, 'graph': snap_json(s)})
        else:
            agree += 1
    return {'evaluations': len(cases) + 2 * len(cidx) + len(fidx), 'agree': agree + (0 if dis else 2 * len(cidx) + len(fidx)), 'disagreements': dis,
            'coq_errors': errs, 'stats': stats, 'hist': {}}


# ------------------------------------------------------------------------------------------------
# random files (import side)
def num_token(rng, vals):
    """a token float() accepts (finite), in one of many formats"""
    x = vals.fresh() if rng.random() < 0.6 else rng.choice([rng.uniform(-10, 10), float(rng.randint(-100, 100)), vals.angle()])
    c = rng.choice(['repr', 'repr', 'g17', 'e', 'plus', 'int', 'sci', 'dot5', 'five.', 'negzero', 'E', 'under', 'short', 'pad0'])
    if c == 'repr':
        return repr(float(x))
    if c == 'g17':
        return '%.17g' % x
    if c == 'e':
        return '%.16e' % x
    if c == 'plus':
        return ('+' if x >= 0 and not str(x).startswith('-') else '') + repr(float(x))
    if c == 'int':
        return str(rng.randint(-1000, 1000))
    if c == 'sci':
        return '%de%d' % (rng.randint(-9, 9), rng.randint(-30, 30))
    if c == 'dot5':
        return rng.choice(['.5', '-.25', '+.125', '.0'])
    if c == 'five.':
        return rng.choice(['5.', '-3.', '+0.'])
    if c == 'negzero':
        return rng.choice(['-0.0', '-0', '0', '0.0', '-0e5'])
    if c == 'E':
        return ('%.6E' % x)
    if c == 'under':
        return rng.choice(['1_000.5', '1_0e1_0', '-2_5'])
    if c == 'short':
        return '%.3f' % (x if abs(x) < 1e6 else 1.5)
    return rng.choice(['007.50', '00', '-01e01'])


def id_token(rng, i):
    c = rng.choice(['d', 'd', 'd', 'plus', 'pad'])
    if c == 'plus' and i >= 0:
        return '+%d' % i
    if c == 'pad':
        return ('-' if i < 0 else '') + '00' + str(abs(i))
    return str(i)


def sep(rng, messy):
    if not messy or rng.random() < 0.6:
        return ' '
    return ''.join(rng.choice([' ', ' ', '\t', '  ', '\x0c', '\x0b', '\x1f', '\x1c']) for _ in range(rng.randint(1, 3)))


JUNK = ['# a comment', '#VERTEX_SE2 1 2 3 4', 'FIX 0', 'VERTEX_SE2\t1 2 3 4', ' VERTEX_SE2 1 2 3 4', 'vertex_se2 1 2 3 4',
        'EDGE_SE2_XYZ 1 2 3', 'VERTEX_SE3 1 2 3', 'EDGE_SE3 1 2', 'PARAMS_CAMERAPARAMETERS 0 1 2 3', 'VERTEX_SE2', 'EDGE_SE2',
        'VERTEX_XY', 'TestEdge', 'TestEdge2 1 2 3', 'XVERTEX_XY 1 2 3', 'VERTEX_SE3:QUATX 1 2', 'EDGE_SE3:QUA 1', 'garbage',
        '\tVERTEX_XY 1 2 3', 'PARAMS_SE3OFFSET\t1 2', 'VERTEX_TRACKXYZ\x0c1 2 3 4', '"quoted"', '0 0 0',
        # a recognised tag that is NOT at the start of the line (commented-out definitions, prose mentioning a tag) is not that kind of line
        '# PARAMS_SE3OFFSET 0 9 9 9 0 0 1 0', '#PARAMS_SE2OFFSET 4 1 2 3', '// PARAMS_SE3OFFSET 1 0 0 0 0 0 0 1', 'old: PARAMS_SE2OFFSET 0 5 5 0.5',
        '# EDGE_SE2 1 2 0 0 0 1 0 0 1 0 1', 'x EDGE_SE2_XY 1 2 0 0 1 0 1', '# VERTEX_XY 9 1 1', 'was VERTEX_SE3:QUAT 3 0 0 0 0 0 0 1']
BLANK = ['', ' ', '\t', '   \t ', '\x0c', '\x1f \x0b']


def gen_file(rng, flavour='valid'):
    """returns (text, custom type names to register, description).  flavour: 'valid' (well-formed, legal order),
    'messy' (valid + odd whitespace, CRLF, junk, blank lines), 'malformed' (one defect injected)."""
    vals = Vals(rng)
    messy = flavour != 'valid'
    use_custom = rng.random() < 0.4
    cts = []
    if use_custom:
        cts = rng.choice([['WR'], ['NR'], ['NN', 'WR'], ['WN', 'NR'], ['NR', 'WR']])
    nv = rng.randint(2, 7)
    dims = rng.choice(['2d', '3d', 'mixed'])
    ids, kinds = [], []
    while len(ids) < nv:
        i = rand_id(rng)
        if i in ids and rng.random() > 0.05:
            continue
        ids.append(i)
        kinds.append(rng.choice({'2d': ['SE2', 'SE2', 'R2'], '3d': ['SE3', 'SE3', 'R3'], 'mixed': ['SE2', 'SE3', 'R2', 'R3']}[dims]))
    eff = {}
    for i, k in zip(ids, kinds):
        eff[i] = k
    by_kind = {}
    for i, k in eff.items():
        by_kind.setdefault(k, []).append(i)

    def fields(idtoks, n):
        toks = list(idtoks) + [num_token(rng, vals) for _ in range(n)]
        out = ''
        for t in toks[:-1]:
            out += t + sep(rng, messy)
        out += toks[-1]
        if messy and rng.random() < 0.3:
            out = sep(rng, True) + out
        if messy and rng.random() < 0.3:
            out += sep(rng, True)
        return out

    vlines = [(VTAG[k] + ' ' + fields([id_token(rng, i)], LEN[k])) for i, k in zip(ids, kinds)]
    plines, elines = [], []      # params and edges keep their relative order constraints
    pids3 = []
    for _ in range(rng.choice([0, 1, 2, 3]) if dims != '2d' else rng.choice([0, 1])):
        i = rand_id(rng) if (not pids3 or rng.random() < 0.8) else rng.choice(pids3)    # redefinition of an id
        pids3.append(i)
        plines.append(('P3', i, 'PARAMS_SE3OFFSET ' + fields([id_token(rng, i)], 7)))
    for _ in range(rng.choice([0, 0, 1, 2])):
        plines.append(('P2', None, 'PARAMS_SE2OFFSET ' + fields([id_token(rng, rand_id(rng))], 3)))
    for _ in range(rng.randint(1, 8)):
        c = rng.choice(['odo2', 'odo3', 'lmk2', 'lmk3', 'cus'])
        if c == 'odo2' and 'SE2' in by_kind:
            i, j = rng.choice(by_kind['SE2']), rng.choice(by_kind['SE2'])
            elines.append(('E', None, 'EDGE_SE2 ' + fields([id_token(rng, i), id_token(rng, j)], 3 + 6)))
        elif c == 'odo3' and 'SE3' in by_kind:
            i, j = rng.choice(by_kind['SE3']), rng.choice(by_kind['SE3'])
            elines.append(('E', None, 'EDGE_SE3:QUAT ' + fields([id_token(rng, i), id_token(rng, j)], 7 + 21)))
        elif c == 'lmk2' and 'SE2' in by_kind and 'R2' in by_kind:
            i, j = rng.choice(by_kind['SE2']), rng.choice(by_kind['R2'])
            elines.append(('E', None, 'EDGE_SE2_XY ' + fields([id_token(rng, i), id_token(rng, j)], 2 + 3)))
        elif c == 'lmk3' and 'SE3' in by_kind and 'R3' in by_kind and pids3:
            i, j = rng.choice(by_kind['SE3']), rng.choice(by_kind['R3'])
            o = rng.choice(pids3)
            elines.append(('E3', o, 'EDGE_SE3_TRACKXYZ ' + fields([id_token(rng, i), id_token(rng, j), id_token(rng, o)], 3 + 6)))
        elif c == 'cus' and (use_custom or rng.random() < 0.2):
            elines.append(('E', None, 'TestEdge ' + fields([id_token(rng, rng.choice(list(eff)))], 2 + 3)))
    # a legal order: any interleaving in which every E3 comes after some definition of its parameter
    seq = [('V', None, l) for l in vlines] + plines + elines
    rng.shuffle(seq)
    if flavour != 'malformed' or rng.random() < 0.7:
        defined = set()
        out, pending = [], []
        for it in seq:
            if it[0] == 'E3' and it[1] not in defined:
                pending.append(it)
                continue
            out.append(it)
            if it[0] == 'P3':
                defined.add(it[1])
                still = []
                for q in pending:
                    (out if q[1] in defined else still).append(q)
                pending = still
        seq = out + pending     # pending is empty: every o was drawn from pids3
    lines = [it[2] for it in seq]
    desc = {'flavour': flavour, 'dims': dims, 'custom': cts, 'defect': None}
    if flavour == 'malformed' and lines:
        d = rng.choice(['badnum', 'badid', 'count', 'novertex', 'kind', 'order'])
        desc['defect'] = d
        k = rng.randrange(len(lines))
        toks = lines[k].split(' ')
        if d == 'badnum':
            toks[-1] = rng.choice(['abc', '1..2', '1e', '--1', '1,5', '0x10'])
            lines[k] = ' '.join(toks)
        elif d == 'badid':
            toks[1] = rng.choice(['1.0', 'x', '1e3', '0x1f', ''])
            lines[k] = ' '.join(toks)
        elif d == 'count':
            lines[k] = ' '.join(toks[:-1]) if rng.random() < 0.5 else lines[k] + ' 1.25'
        elif d == 'novertex':
            lines.append('EDGE_SE2 987654 987655 1 2 3 1 0 0 1 0 1')
        elif d == 'kind' and len(ids) >= 2:
            lines.append('EDGE_SE2 %d %d 1 2 3 1 0 0 1 0 1' % (ids[0], ids[1]))
            lines.append('EDGE_SE2_XY %d %d 1 2 1 0 1' % (ids[1], ids[0]))
        # 'order' was produced by skipping the legal reordering above
    edge_lines = [k for k, l in enumerate(lines) if l.startswith('EDGE')]
    if edge_lines and flavour != 'malformed' and rng.random() < 0.25:
        # a measurement recorded twice: two textually identical EDGE lines are two edges
        k = rng.choice(edge_lines)
        lines.insert(k + rng.choice([1, 1, len(lines) - k]), lines[k])
        desc['duplicate_edge_line'] = True
    if messy:
        for _ in range(rng.randint(0, 5)):
            lines.insert(rng.randint(0, len(lines)), rng.choice(JUNK if rng.random() < 0.6 else BLANK))
    eol = rng.choice(['\n', '\n', '\r\n', 'mixed']) if messy else '\n'
    text = ''
    for n, l in enumerate(lines):
        e = rng.choice(['\n', '\r\n']) if eol == 'mixed' else eol
        if n == len(lines) - 1 and rng.random() < 0.3:
            e = ''
        text += l + e
    desc['eol'] = eol
    return text, cts, desc


def split_lines(text):
    """what readlines() returns in text mode (universal newlines): \\r\\n, \\r, \\n all end a line and become \\n"""
    out = []
    for m in re.finditer(r'([^\r\n]*)(\r\n|\r|\n)|([^\r\n]+)\Z', text):
        out.append(m.group(1) + '\n' if m.group(2) else m.group(3))
    return out


def py_tokens(lines):
    toks = set()
    for l in lines:
        toks.update(l.split())
    return sorted(toks)


def import_case_expr(lines, cts):
    """float()/int() oracle tables for every token of the file, and the Coq expression"""
    ftab, itab, fvals = [], [], []
    for t in py_tokens(lines):
        try:
            coq_str(t)
        except ValueError:
            continue
        try:
            x = float(t)
            ftab.append('(%s, %d)' % (coq_str(t), len(fvals)))
            fvals.append((t, x))
        except ValueError:
            pass
        try:
            itab.append('(%s, %s)' % (coq_str(t), coq_z(int(t))))
        except ValueError:
            pass
    expr = 'dump_import (simport %s %s %s %s)' % (coq_list(ftab), coq_list(itab), coq_list([coq_ct(c) for c in cts]),
                                                  coq_list([coq_str(l) for l in lines]))
    return fvals, expr


class Reader:
    def __init__(self, ints):
        self.a, self.i = ints, 0

    def get(self):
        v = self.a[self.i]
        self.i += 1
        return v

    def sym(self):
        t = self.get()
        if t == 0:
            return ('at', self.get())
        if t == 1:
            return ('wr', self.sym())
        if t == 2:
            i, n = self.get(), self.get()
            return ('nq', i, [self.sym() for _ in range(n)])
        if t == 3:
            return ('zr',)
        raise ValueError('bad sym tag %r' % t)

    def lst(self):
        return [self.sym() for _ in range(self.get())]

    def mat(self):
        return [self.lst() for _ in range(self.get())]

    def string(self):
        return ''.join(chr(self.get()) for _ in range(self.get()))

    def graph(self):
        g = {'params': [], 'verts': [], 'edges': []}
        for _ in range(self.get()):
            pk, i = self.get(), self.get()
            g['params'].append({'pk': KCODE[pk], 'id': i, 'val': self.lst()})
        for _ in range(self.get()):
            i, k = self.get(), self.get()
            g['verts'].append({'id': i, 'kind': KCODE[k], 'val': self.lst()})
        for _ in range(self.get()):
            t = self.get()
            if t == 1:
                k, i, j = self.get(), self.get(), self.get()
                g['edges'].append({'t': 'odo', 'k': KCODE[k], 'ids': [i, j], 'est': self.lst(), 'info': self.mat()})
            elif t == 2:
                ko, ke, i, j = self.get(), self.get(), self.get(), self.get()
                e = {'t': 'lmk', 'ko': KCODE[ko], 'ke': KCODE[ke], 'ids': [i, j], 'est': self.lst(), 'info': self.mat(), 'off': self.lst()}
                e['oid'] = self.get() if self.get() == 1 else None
                g['edges'].append(e)
            else:
                w, r = self.get(), self.get()
                tag = self.string()
                n = self.get()
                ids = [self.get() for _ in range(n)]
                ct = [k for k, v in CT.items() if v[4] == bool(w) and v[5] == bool(r)][0]
                g['edges'].append({'t': 'cus', 'ct': ct, 'tag': tag, 'ids': ids, 'est': self.lst(), 'info': self.mat()})
        return g


def impl_wrap(x):
    return float(gs_util.neg_pi_to_pi(np.float64(x)))


def impl_normq(q):
    p = PoseSE3([0.0, 0.0, 0.0], [np.float64(v) for v in q])
    with np.errstate(all='ignore'):
        p.normalize()
    return [float(v) for v in p[3:]]


def eval_sym(s, table):
    """evaluate a model number with the implementation's own neg_pi_to_pi / normalize"""
    if s[0] == 'at':
        return float(table[s[1]])
    if s[0] == 'wr':
        return impl_wrap(eval_sym(s[1], table))
    if s[0] == 'nq':
        return impl_normq([eval_sym(q, table) for q in s[2]])[s[1]]
    return 0.0


def eval_graph(g, table):
    ev = lambda l: [eval_sym(s, table) for s in l]   # noqa: E731
    out = {'params': [], 'verts': [], 'edges': []}
    for p in g['params']:
        out['params'].append({'pk': p['pk'], 'id': p['id'], 'kind': p['pk'], 'val': ev(p['val'])})
    for v in g['verts']:
        out['verts'].append({'id': v['id'], 'kind': v['kind'], 'val': ev(v['val'])})
    for e in g['edges']:
        d = {k: v for k, v in e.items() if k not in ('est', 'info', 'off', 'tag')}
        d['est'] = ev(e['est'])
        d['info'] = [ev(r) for r in e['info']]
        if 'off' in e:
            d['off'] = ev(e['off'])
        out['edges'].append(d)
    return out


class LogCapture(logging.Handler):
    def __init__(self):
        super().__init__()
        self.records = []

    def emit(self, record):
        self.records.append(record)


def impl_import(text, cts, loader=None):
    """run Graph.from_g2o (or a loader of graphslam.load) on a file with this content.  Returns
    ('ok', snapshot, [warning messages of logger graphslam.graph], graph) or ('raise', class name, message)."""
    d = tempfile.mkdtemp(prefix='g2o_', dir=os.path.join(vlib.BUILD, 'corr'))
    p = os.path.join(d, 'f.g2o')
    with open(p, 'w', newline='') as f:
        f.write(text)
    h = LogCapture()
    lg = logging.getLogger('graphslam.graph')
    lg2 = logging.getLogger('graphslam.load')
    old = (lg.level, lg.propagate, lg2.propagate)
    lg.addHandler(h)
    lg.setLevel(logging.DEBUG)
    lg.propagate = False
    lg2.propagate = False
    h2 = LogCapture()
    lg2.addHandler(h2)
    try:
        with open(p) as f:
            rl = f.readlines()
        try:
            with np.errstate(all='ignore'):
                if loader is None:
                    g = Graph.from_g2o(p, [CUSTOM[c] for c in cts] if cts else None)
                else:
                    g = getattr(gs_load, loader)(p)
        except Exception as ex:  # noqa
            return ('raise', type(ex).__name__, str(ex), rl)
        if loader is not None and (len(h2.records) != 1 or h2.records[0].levelname != 'WARNING'):
            return ('raise', 'LoaderLog', 'expected exactly one deprecation warning from graphslam.load, got %d' % len(h2.records), rl)
        return ('ok', snapshot(g), [(r.levelname, r.msg, r.args) for r in h.records], g, rl)
    finally:
        lg.removeHandler(h)
        lg2.removeHandler(h2)
        lg.setLevel(old[0])
        lg.propagate = old[1]
        lg2.propagate = old[2]
        shutil.rmtree(d, ignore_errors=True)


LOADERS = ['load_g2o', 'load_g2o_r2', 'load_g2o_r3', 'load_g2o_se2', 'load_g2o_se3']


def compare_import(chunk, fvals, lines, impl, stats):
    table = [x for _, x in fvals]
    if impl[-1] != lines:
        return 'readlines() differs from the harness line splitter: %r vs %r' % (impl[-1][:3], lines[:3])
    if chunk[0] == 0:
        want = ERR[chunk[1]]
        stats['raise_' + want] = stats.get('raise_' + want, 0) + 1
        if want == 'Malformed':
            # outside the modelled fragment: no claim; record what the implementation did
            k = 'malformed_impl_' + (impl[1] if impl[0] == 'raise' else 'accepted')
            stats[k] = stats.get(k, 0) + 1
            return None
        if impl[0] != 'raise' or impl[1] != want:
            return 'model: import raises %s; implementation: %s' % (want, impl[1:3] if impl[0] == 'raise' else 'returned a graph')
        return None
    if impl[0] != 'ok':
        return 'model: import succeeds; implementation raised %s(%s)' % (impl[1], impl[2])
    rd = Reader(chunk[1:])
    mg = eval_graph(rd.graph(), table)
    mw = [rd.string() for _ in range(rd.get())]
    if rd.i != len(rd.a):
        return 'trailing integers in the model dump'
    why = diff_snapshots(mg, impl[1], 'model vs implementation')
    if why:
        return why
    iw = impl[2]
    if len(iw) != len(mw):
        return 'model: %d warnings, implementation logged %d: %r' % (len(mw), len(iw), [w[2] for w in iw][:3])
    for a, (lvl, msg, args) in zip(mw, iw):
        if lvl != 'WARNING' or msg != "Line not supported -- '%s'" or tuple(args) != (a.rstrip(),):
            return 'warning record differs: model line %r, implementation %r %r %r' % (a, lvl, msg, args)
    stats['ok_graphs'] = stats.get('ok_graphs', 0) + 1
    stats['warnings'] = stats.get('warnings', 0) + len(mw)
    for sec in ('params', 'verts', 'edges'):
        stats['n_' + sec] = stats.get('n_' + sec, 0) + len(mg[sec])
    return None


def run_import(rng, n, prefix):
    stats, cases, exprs = {}, [], []
    for k in range(n):
        fl = ['valid', 'messy', 'messy', 'malformed'][k % 4]
        text, cts, desc = gen_file(rng, fl)
        lines = split_lines(text)
        fv1, e1 = import_case_expr(lines, cts)
        cases.append((text, cts, desc, lines, fv1))
        exprs.append(e1)
        if cts:   # the loaders take no custom types: second evaluation without them
            fv2, e2 = import_case_expr(lines, [])
            cases.append((text, [], dict(desc, custom=[], loaders=True), lines, fv2))
            exprs.append(e2)
        else:
            desc['loaders'] = True
        stats['flavour_' + fl] = stats.get('flavour_' + fl, 0) + 1
        stats['eol_' + repr(desc['eol'])] = stats.get('eol_' + repr(desc['eol']), 0) + 1
    chunks, errs = run_coq(prefix, exprs)
    dis, agree = [], 0
    for (text, cts, desc, lines, fv), ch in zip(cases, chunks):
        if ch is None:
            continue
        impl = impl_import(text, cts)
        why = compare_import(ch, fv, lines, impl, stats)
        if not why and desc.get('loaders'):
            for ld in LOADERS:
                r = impl_import(text, [], loader=ld)
                stats['loader_runs'] = stats.get('loader_runs', 0) + 1
                if r[0] != impl[0]:
                    why = '%s: %s but Graph.from_g2o: %s' % (ld, r[:2], impl[:2])
                elif r[0] == 'raise':
                    if r[1:3] != impl[1:3]:
                        why = '%s raised %r, Graph.from_g2o raised %r' % (ld, r[1:3], impl[1:3])
                else:
                    why = diff_snapshots(impl[1], r[1], ld + ' vs Graph.from_g2o')
                    if not why and [w[2] for w in r[2]] != [w[2] for w in impl[2]]:
                        why = '%s logs different graphslam.graph warnings' % ld
                if why:
                    break
        if why:
            dis.append({'side': 'import', 'why': why, 'text': text, 'custom': cts, 'desc': desc})
        else:
            agree += 1
    return {'evaluations': len(cases), 'agree': agree, 'disagreements': dis, 'coq_errors': errs, 'stats': stats}


# ================================================================================================
# DIRECT ORACLES on the implementation (produce replays; independent of the Coq model)
def build_graph(s):
    """rebuild a Python graph from a snapshot (exact bit patterns)"""
    def pose(kind, val):
        if kind == 'SE2':
            p = PoseSE2([val[0], val[1]], 0.0)
            p[2] = val[2]
            return p
        if kind == 'SE3':
            return PoseSE3(val[:3], val[3:])
        return CLS[kind](list(val))
    vs = [Vertex(v['id'], pose(v['kind'], v['val'])) for v in s['verts']]
    es = []
    for e in s['edges']:
        info = np.array(e['info'], dtype=np.float64)
        if e['t'] == 'odo':
            es.append(EdgeOdometry(list(e['ids']), info, pose(e['k'], e['est'])))
        elif e['t'] == 'lmk':
            es.append(EdgeLandmark(list(e['ids']), info, pose(e['ke'], e['est']), pose(e['ko'], e['off']), e['oid']))
        else:
            es.append(CUSTOM[e['ct']](list(e['ids']), info, np.array(e['est'], dtype=np.float64)))
    g = Graph(es, vs)
    if s['params']:
        g._g2o_params = {}
        for p in s['params']:
            key = ('PARAMS_%sOFFSET' % p['pk'], p['id'])
            g._g2o_params[key] = (G2OParameterSE2Offset if p['pk'] == 'SE2' else G2OParameterSE3Offset)(key, pose(p['pk'], p['val']))
    return g


def snap_json(s):
    """snapshot with doubles as hex strings (exact, JSON-safe)"""
    def cv(o):
        if isinstance(o, float):
            return o.hex()
        if isinstance(o, list):
            return [cv(x) for x in o]
        if isinstance(o, dict):
            return {k: cv(v) for k, v in o.items()}
        return o
    return cv(s)


def snap_unjson(s):
    def cv(o):
        if isinstance(o, str) and re.match(r'^-?0x[0-9a-f.]+p[+-]?\d+$|^-?(inf|nan)$', o):
            return float.fromhex(o)
        if isinstance(o, list):
            return [cv(x) for x in o]
        if isinstance(o, dict):
            return {k: cv(v) for k, v in o.items()}
        return o
    return cv(s)


def eff_kinds(s):
    eff = {}
    for v in s['verts']:
        eff[v['id']] = v['kind']
    return eff


def py_refusal(s):
    """None if the format can express the graph, else the exception Graph.to_g2o must raise.
    (ValueError of the parameter loop comes before any NotImplementedError of the edges.)"""
    eff = eff_kinds(s)
    params = {(p['pk'], p['id']): p['val'] for p in s['params']}
    for e in s['edges']:
        if e['t'] == 'lmk' and e['ko'] == 'SE3':
            if e['oid'] is None:
                return 'ValueError'
            key = ('SE3', e['oid'])
            if key not in params:
                params[key] = e['off']
            elif not (len(params[key]) == len(e['off']) and all(a == b for a, b in zip(params[key], e['off']))):
                return 'ValueError'
    for e in s['edges']:
        k0 = eff[e['ids'][0]]
        if e['t'] == 'odo' and k0 not in ('SE2', 'SE3'):
            return 'NotImplementedError'
        if e['t'] == 'lmk':
            if k0 not in ('SE2', 'SE3'):
                return 'NotImplementedError'
            if k0 == 'SE2' and not all(x == 0.0 for x in e['off']):
                return 'NotImplementedError'
    return None


def py_canon(s):
    """what one export/import cycle may change: SE(2) angles wrapped, SE(3) odometry quaternions normalised,
    2-D landmark offset = identity with offset_id 0, SE(3) landmark offsets = their parameter, parameters completed,
    edges whose to_g2o returns None dropped, custom written edges re-read by their type."""
    def wrap3(v):
        return [v[0], v[1], impl_wrap(v[2])]
    params = [dict(p) for p in s['params']]
    keys = {(p['pk'], p['id']): p for p in params}
    for e in s['edges']:
        if e['t'] == 'lmk' and e['ko'] == 'SE3' and ('SE3', e['oid']) not in keys:
            p = {'pk': 'SE3', 'id': e['oid'], 'kind': 'SE3', 'val': list(e['off'])}
            params.append(p)
            keys[('SE3', e['oid'])] = p
    for p in params:
        p.pop('own_key', None)
        if p['pk'] == 'SE2':
            p['val'] = wrap3(p['val'])
    out = {'params': params, 'verts': [], 'edges': []}
    for v in s['verts']:
        out['verts'].append({'id': v['id'], 'kind': v['kind'], 'val': wrap3(v['val']) if v['kind'] == 'SE2' else list(v['val'])})
    for e in s['edges']:
        d = {k: (list(v) if isinstance(v, list) else v) for k, v in e.items()}
        if e['t'] == 'odo' and e['k'] == 'SE2':
            d['est'] = wrap3(e['est'])
        elif e['t'] == 'odo' and e['k'] == 'SE3':
            d['est'] = list(e['est'][:3]) + impl_normq(e['est'][3:])
        elif e['t'] == 'lmk' and e['ko'] == 'SE2':
            d['off'] = [0.0, 0.0, 0.0]
            d['oid'] = 0
        elif e['t'] == 'lmk' and e['ko'] == 'SE3':
            d['off'] = list(keys[('SE3', e['oid'])]['val'])
        elif e['t'] == 'cus':
            if not CT[e['ct']][4]:
                continue
        out['edges'].append(d)
    return out


def cycle(g, cts=None):
    d = tempfile.mkdtemp(prefix='g2o_', dir=os.path.join(vlib.BUILD, 'corr'))
    p = os.path.join(d, 'g.g2o')
    try:
        g.to_g2o(p)
        with np.errstate(all='ignore'):
            return Graph.from_g2o(p, cts)
    finally:
        shutil.rmtree(d, ignore_errors=True)


def has_sign_flip(s):
    """an SE(3) odometry measurement with w < 0: normalize() negates it (the C08 finding: chi2 changes when the
    information matrix couples translation and rotation)"""
    return any(e['t'] == 'odo' and e['k'] == 'SE3' and not (e['est'][6] >= 0.0) for e in s['edges'])


def has_nonunit(s):
    """an SE(3) odometry measurement whose quaternion is not of unit length: normalize() changes the measurement itself"""
    return any(e['t'] == 'odo' and e['k'] == 'SE3' and not abs(math.sqrt(sum(v * v for v in e['est'][3:])) - 1.0) < 1e-12
               for e in s['edges'])


def check_roundtrip(s, cycles, stats, chi2=True):
    """the statement of C13 on the implementation for the graph with snapshot s.  Returns None or a failure dict."""
    g = build_graph(s)
    ref = py_refusal(s)
    try:
        with np.errstate(all='ignore'):
            c0 = float(g.calc_chi2())
    except Exception:  # noqa
        c0 = None
    cur, exp = g, s
    for k in range(1, cycles + 1):
        d = tempfile.mkdtemp(prefix='g2o_', dir=os.path.join(vlib.BUILD, 'corr'))
        path = os.path.join(d, 'g.g2o')
        try:
            try:
                cur.to_g2o(path)
            except Exception as ex:  # noqa
                name = type(ex).__name__
                if k == 1 and ref is not None:
                    stats['refused_' + name] = stats.get('refused_' + name, 0) + 1
                    if name != ref:
                        return {'what': 'content the format cannot express is refused with %s, expected %s' % (name, ref), 'cycle': k}
                    if os.path.exists(path):
                        with open(path, newline='') as f:
                            left = f.read()
                        return {'what': 'the refused export (%s) left a file behind: %d line(s) of a truncated graph' % (name, left.count('\n')),
                                'partial_file': left, 'cycle': k}
                    stats['refused_no_file'] = stats.get('refused_no_file', 0) + 1
                    return None
                return {'what': 'export in cycle %d raised %s: %s' % (k, name, ex), 'cycle': k}
            if k == 1 and ref is not None:
                return {'what': 'content the format cannot express (%s expected) was written instead of refused' % ref, 'cycle': k}
            try:
                with np.errstate(all='ignore'):
                    nxt = Graph.from_g2o(path)
            except Exception as ex:  # noqa
                return {'what': 'import in cycle %d raised %s: %s' % (k, type(ex).__name__, ex), 'cycle': k}
        finally:
            shutil.rmtree(d, ignore_errors=True)
        exp = py_canon(exp)
        got = snapshot(nxt)
        why = diff_snapshots(exp, got, 'expected (only wrap/normalize may change) vs re-imported after %d cycle(s)' % k)
        if why:
            return {'what': why, 'cycle': k}
        if chi2 and c0 is not None and math.isfinite(c0):
            with np.errstate(all='ignore'):
                c1 = float(nxt.calc_chi2())
            unchanged = diff_snapshots({'params': [], 'verts': s['verts'], 'edges': [dict(e, oid=None, off=None) for e in s['edges']]},
                                       {'params': [], 'verts': got['verts'], 'edges': [dict(e, oid=None, off=None) for e in got['edges']]}) is None
            if unchanged:
                stats['chi2_bitwise'] = stats.get('chi2_bitwise', 0) + 1
                if bits(c0) != bits(c1) and not (c0 == c1):
                    return {'what': 'chi2 changed although every number is bitwise unchanged: %r -> %r' % (c0, c1), 'cycle': k}
            elif has_nonunit(s):
                stats['chi2_nonunit_measurement_not_compared'] = stats.get('chi2_nonunit_measurement_not_compared', 0) + 1
            elif has_sign_flip(s):
                stats['chi2_sign_flip_not_compared'] = stats.get('chi2_sign_flip_not_compared', 0) + 1
                if abs(c1 - c0) > 1e-6 * max(1.0, abs(c0)):
                    stats['chi2_sign_flip_changed'] = stats.get('chi2_sign_flip_changed', 0) + 1
                    stats.setdefault('chi2_sign_flip_example', {'chi2_before': c0, 'chi2_after': c1, 'graph': snap_json(s)})
            else:
                stats['chi2_tolerance'] = stats.get('chi2_tolerance', 0) + 1
                if not abs(c1 - c0) <= 1e-9 * max(1.0, abs(c0)):
                    return {'what': 'chi2 changed beyond renormalisation noise: %r -> %r' % (c0, c1), 'cycle': k}
        cur = nxt
    stats['cycles_ok'] = stats.get('cycles_ok', 0) + cycles
    return None


def shrink_graph(s, fails):
    """greedy: drop edges / vertices / params while the failure persists"""
    cur = s
    changed = True
    while changed:
        changed = False
        for sec in ('edges', 'params', 'verts'):
            for n in range(len(cur[sec])):
                t = dict(cur)
                t[sec] = cur[sec][:n] + cur[sec][n + 1:]
                try:
                    if fails(t):
                        cur, changed = t, True
                        break
                except Exception:  # noqa
                    pass
            if changed:
                break
    return cur


# the fixed witness of the known finding (C08/C13): SE(3) odometry edge, unit measurement quaternion with w < 0,
# information with one translation-rotation cross term.  normalize() on import negates the quaternion; chi2 changes.
def _eye6_cross():
    m = [[1.0 if i == j else 0.0 for j in range(6)] for i in range(6)]
    m[0][5] = m[5][0] = 0.5
    return m


FIXED_SIGN_FLIP = {
    'params': [],
    'verts': [{'id': 0, 'kind': 'SE3', 'val': [0.0, 0.0, 0.0, 0.0, 0.0, 0.0, 1.0]},
              {'id': 1, 'kind': 'SE3', 'val': [1.0, 2.0, 3.0, 0.5, 0.5, -0.5, 0.5]}],
    'edges': [{'t': 'odo', 'k': 'SE3', 'ids': [0, 1], 'est': [1.25, 1.75, 3.5, -0.5, 0.5, -0.5, -0.5], 'info': _eye6_cross()}]}


def oracle_roundtrip(rng, n, cycles=5):
    stats, fails = {}, []
    # always first, whatever the seed: makes the KNOWN-FINDING deterministic
    f = check_roundtrip(FIXED_SIGN_FLIP, 1, stats, chi2=True)
    stats['fixed_sign_flip_witness_run'] = 1
    if f:
        fails.append(dict(f, graph=snap_json(FIXED_SIGN_FLIP), cycles=1, chi2=True))
    for k in range(n):
        moderate = k % 2 == 0
        g = gen_graph(rng, ['ok', 'ok', 'ok', 'any', 'ok', 'defect'][k % 6], moderate=moderate)
        s = snapshot(g)
        if any(e['t'] == 'cus' for e in s['edges']):
            s['edges'] = [e for e in s['edges'] if e['t'] != 'cus']     # outside C13's quantifier
        asym = any(not same_mat(e['info'], [list(r) for r in zip(*e['info'])]) for e in s['edges'])
        if asym:
            stats['skipped_asymmetric_information'] = stats.get('skipped_asymmetric_information', 0) + 1
            continue
        stats['moderate' if moderate else 'wide'] = stats.get('moderate' if moderate else 'wide', 0) + 1
        f = check_roundtrip(s, cycles, stats, chi2=moderate)
        if f:
            small = shrink_graph(s, lambda t: check_roundtrip(t, cycles, {}, chi2=moderate) is not None)
            f2 = check_roundtrip(small, cycles, {}, chi2=moderate) or f
            fails.append(dict(f2, graph=snap_json(small), cycles=cycles, chi2=moderate))
    return n, fails, stats


def replay_roundtrip(p):
    s = snap_unjson(p['graph'])
    f = check_roundtrip(s, p.get('cycles', 1), {}, chi2=p.get('chi2', False))
    print('C13 replay:', f['what'] if f else 'no failure')
    return 1 if f else 0


# ---- hypotheses about str()/float()/int()/neg_pi_to_pi/normalize, measured on samples ----
def check_oracle_hypotheses(rng, n):
    vals = Vals(rng)
    out = {'parse_print': 0, 'parse_print_id': 0, 'token_ws_free': 0, 'wrap_idem': 0, 'wrap_idem_fail': [],
           'normq_idem_bitwise': 0, 'normq_idem_max_ulp': 0.0, 'normq_len': 0, 'identity_zero': 0, 'fail': []}
    for _ in range(n):
        x = np.float64(vals.fresh() if rng.random() < 0.8 else vals.angle())
        t = '{}'.format(x)
        if not is_ws_free(t) or bits(float(t)) != bits(x) or t != str(x):
            out['fail'].append('float(str(%r)) -> %r' % (x, t))
        out['parse_print'] += 1
        out['token_ws_free'] += 1
        i = rand_id(rng)
        t = '{}'.format(i)
        if not is_ws_free(t) or int(t) != i:
            out['fail'].append('int(str(%r))' % i)
        out['parse_print_id'] += 1
        a = vals.angle()
        w = impl_wrap(a)
        if bits(impl_wrap(w)) != bits(w):
            out['wrap_idem_fail'].append((a.hex(), w.hex(), impl_wrap(w).hex()))
        else:
            out['wrap_idem'] += 1
        q = vals.quat(unit=rng.random() < 0.5)
        n1 = impl_normq(q)
        n2 = impl_normq(n1)
        out['normq_len'] += 1
        if len(n1) != 4:
            out['fail'].append('normalize changed the length')
        if same_bits(n1, n2):
            out['normq_idem_bitwise'] += 1
        elif all(math.isfinite(v) for v in n1):
            out['normq_idem_max_ulp'] = max(out['normq_idem_max_ulp'], max(abs(a - b) / (2.0 ** -52) for a, b in zip(n1, n2)))
    ident = snap_pose(PoseSE2.identity())
    if not same_bits(ident, [0.0, 0.0, 0.0]):
        out['fail'].append('PoseSE2.identity() is not bitwise (0.0, 0.0, 0.0): %r' % ident)
    out['identity_zero'] = 1
    return out


# ------------------------------------------------------------------------------------------------
# C14: independent regex parser
TAGS = [('VERTEX_XY', 'V', 'R2'), ('VERTEX_TRACKXYZ', 'V', 'R3'), ('VERTEX_SE2', 'V', 'SE2'), ('VERTEX_SE3:QUAT', 'V', 'SE3'),
        ('EDGE_SE2', 'O', 'SE2'), ('EDGE_SE3:QUAT', 'O', 'SE3'), ('EDGE_SE2_XY', 'L', 'SE2'), ('EDGE_SE3_TRACKXYZ', 'L', 'SE3'),
        ('PARAMS_SE2OFFSET', 'P', 'SE2'), ('PARAMS_SE3OFFSET', 'P', 'SE3')]
LINE_RE = re.compile(r'\A(' + '|'.join(re.escape(t[0]) for t in TAGS) + r'|TestEdge) ([\s\S]*)\Z')
TOK_RE = re.compile(r'[^ \t\n\r\x0b\x0c\x1c-\x1f]+')


def full_from_triu(t, n):
    return [[t[min(i, j) * n - min(i, j) * (min(i, j) - 1) // 2 + (max(i, j) - min(i, j))] for j in range(n)] for i in range(n)]


def regex_parse(text, cts):
    """expected snapshot + number of warnings, or None if some line is outside the well-formed vocabulary
    (wrong field count, bad token, undefined parameter)"""
    out = {'params': [], 'verts': [], 'edges': []}
    pdict = {}
    warns = []
    reads = [c for c in cts if CT[c][5]]
    for line in re.split(r'(?<=\n)', re.sub(r'\r\n|\r', '\n', text)):
        if TOK_RE.search(line) is None:
            continue
        m = LINE_RE.match(line)
        if not m or (m.group(1) == 'TestEdge' and not reads):
            warns.append(line.rstrip(WS))
            continue
        tag, toks = m.group(1), TOK_RE.findall(m.group(2))
        try:
            if tag == 'TestEdge':
                if len(toks) != 6:
                    return None
                x = [float(t) for t in toks[1:]]
                out['edges'].append({'t': 'cus', 'ct': reads[0], 'ids': [int(toks[0])], 'est': x[:2], 'info': full_from_triu(x[2:], 2)})
                continue
            cat, k = [(c, k) for t, c, k in TAGS if t == tag][0]
            if cat == 'V':
                if len(toks) != 1 + LEN[k]:
                    return None
                x = [float(t) for t in toks[1:]]
                if k == 'SE2':
                    x[2] = impl_wrap(x[2])
                out['verts'].append({'id': int(toks[0]), 'kind': k, 'val': x})
            elif cat == 'P':
                if len(toks) != 1 + LEN[k]:
                    return None
                x = [float(t) for t in toks[1:]]
                if k == 'SE2':
                    x[2] = impl_wrap(x[2])
                key = (k, int(toks[0]))
                pdict[key] = x
            elif cat == 'O':
                n = CDIM[k]
                if len(toks) != 2 + LEN[k] + n * (n + 1) // 2:
                    return None
                x = [float(t) for t in toks[2:]]
                est = x[:LEN[k]]
                if k == 'SE2':
                    est[2] = impl_wrap(est[2])
                else:
                    est = est[:3] + impl_normq(est[3:])
                out['edges'].append({'t': 'odo', 'k': k, 'ids': [int(toks[0]), int(toks[1])], 'est': est, 'info': full_from_triu(x[LEN[k]:], n)})
            elif k == 'SE2':
                if len(toks) != 2 + 2 + 3:
                    return None
                x = [float(t) for t in toks[2:]]
                out['edges'].append({'t': 'lmk', 'ko': 'SE2', 'ke': 'R2', 'ids': [int(toks[0]), int(toks[1])], 'est': x[:2],
                                     'info': full_from_triu(x[2:], 2), 'off': [0.0, 0.0, 0.0], 'oid': 0})
            else:
                if len(toks) != 3 + 3 + 6:
                    return None
                x = [float(t) for t in toks[3:]]
                o = int(toks[2])
                if ('SE3', o) not in pdict:
                    return None
                out['edges'].append({'t': 'lmk', 'ko': 'SE3', 'ke': 'R3', 'ids': [int(toks[0]), int(toks[1])], 'est': x[:3],
                                     'info': full_from_triu(x[3:], 3), 'off': list(pdict[('SE3', o)]), 'oid': o})
        except ValueError:
            return None
    out['params'] = [{'pk': k[0], 'id': k[1], 'kind': k[0], 'val': v} for k, v in pdict.items()]
    return out, warns


def check_file(text, cts, stats):
    """C14 on the implementation for one file: regex parser vs Graph.from_g2o, skip-invariance, loaders"""
    exp = regex_parse(text, cts)
    if exp is None:
        stats['outside_vocabulary'] = stats.get('outside_vocabulary', 0) + 1
        return None
    r = impl_import(text, cts)
    if r[0] == 'raise':
        if r[1] in ('KeyError', 'AssertionError'):     # edge naming a missing vertex / ill-typed edge: Graph.__init__
            stats['graph_ctor_' + r[1]] = stats.get('graph_ctor_' + r[1], 0) + 1
            return None
        return {'what': 'well-formed file rejected: %s(%s)' % (r[1], r[2])}
    why = diff_snapshots(exp[0], r[1], 'file text (regex parser) vs Graph.from_g2o')
    if why:
        return {'what': why}
    got_w = [a[2][0] if a[2] else None for a in r[2]]
    if got_w != exp[1]:
        return {'what': 'warnings: expected %r, logged %r' % (exp[1][:3], got_w[:3])}
    stats['files_ok'] = stats.get('files_ok', 0) + 1
    stats['objects'] = stats.get('objects', 0) + sum(len(exp[0][k]) for k in exp[0])
    return None


def check_skip(text, cts, rng, stats):
    """inserting a junk or blank line anywhere changes nothing but (for junk) one warning"""
    base = impl_import(text, cts)
    if base[0] != 'ok':
        return None
    lines = split_lines(text)
    if lines and not lines[-1].endswith('\n'):
        lines[-1] += '\n'
    k = rng.randint(0, len(lines))
    junk = rng.random() < 0.6
    ins = rng.choice(JUNK if junk else BLANK)
    if junk and ins.startswith('TestEdge ') and cts:
        ins = '# ' + ins
    t2 = ''.join(lines[:k] + [ins + '\n'] + lines[k:])
    r = impl_import(t2, cts)
    if r[0] != 'ok':
        return {'what': 'inserting the line %r at %d makes the import raise %s' % (ins, k, r[1]), 'text': t2}
    why = diff_snapshots(base[1], r[1], 'before vs after inserting %r at line %d' % (ins, k))
    if why:
        return {'what': why, 'text': t2}
    if len(r[2]) != len(base[2]) + (1 if junk else 0):
        return {'what': 'inserting %r changed the number of warnings from %d to %d' % (ins, len(base[2]), len(r[2])), 'text': t2}
    stats['skip_ok_' + ('junk' if junk else 'blank')] = stats.get('skip_ok_' + ('junk' if junk else 'blank'), 0) + 1
    return None


def shrink_text(text, cts, fails):
    lines = split_lines(text)
    changed = True
    while changed:
        changed = False
        for n in range(len(lines)):
            t = lines[:n] + lines[n + 1:]
            try:
                if fails(''.join(t)):
                    lines, changed = t, True
                    break
            except Exception:  # noqa
                pass
    return ''.join(lines)


def check_custom_precedence():
    """a registered custom edge type whose from_g2o recognises a line that a built-in type also recognises gets the line (custom types are asked
    first): the object built for the line is of the registered type and carries the numbers that type's reader produced"""
    from graphslam.util import upper_triangular_matrix_to_full_matrix as ut

    class HalvedOdometry(EdgeOdometry):
        @classmethod
        def from_g2o(cls, line, g2o_params_or_none=None):
            if line.startswith('EDGE_SE2 '):
                nums = line[len('EDGE_SE2 '):].split()
                arr = np.array([float(x) for x in nums[2:]], dtype=np.float64)
                return cls([int(nums[0]), int(nums[1])], 0.5 * ut(arr[3:], 3), PoseSE2(arr[:2], arr[2]))
            return None
    text = 'VERTEX_SE2 1 0 0 0\nVERTEX_SE2 2 1 0 0\nEDGE_SE2 1 2 1 0 0 4 0 0 4 0 4\n'
    d = tempfile.mkdtemp(prefix='g2o_', dir=os.path.join(vlib.BUILD, 'corr'))
    try:
        pth = os.path.join(d, 'c.g2o')
        with open(pth, 'w') as fh:
            fh.write(text)
        g = Graph.from_g2o(pth, [HalvedOdometry])
        e = g._edges[0] if g._edges else None
        if e is None or type(e) is not HalvedOdometry or float(np.asarray(e.information)[0, 0]) != 2.0:
            return {'what': 'an EDGE_SE2 line claimed by a registered custom edge type was built as %s with information[0][0] = %r (expected the custom type, 2.0)'
                            % (type(e).__name__, None if e is None else float(np.asarray(e.information)[0, 0])), 'text': text, 'custom': ['HalvedOdometry (EdgeOdometry subclass reading EDGE_SE2 lines)']}
    except Exception as ex:  # noqa
        return {'what': 'custom precedence case raised %r' % (ex,), 'text': text}
    finally:
        shutil.rmtree(d, ignore_errors=True)
    return None


def oracle_files(rng, n):
    stats, fails = {}, []
    f0 = check_custom_precedence()
    if f0:
        fails.append(dict(f0, oracle='custom-precedence'))
    for k in range(n):
        text, cts, desc = gen_file(rng, ['valid', 'messy', 'messy'][k % 3])
        f = check_file(text, cts, stats)
        if f:
            small = shrink_text(text, cts, lambda t: check_file(t, cts, {}) is not None)
            f = check_file(small, cts, {}) or f
            fails.append(dict(f, text=small, custom=cts, oracle='regex'))
            continue
        f = check_skip(text, cts, rng, stats)
        if f:
            fails.append(dict(f, custom=cts, oracle='skip'))
    return n, fails, stats


def replay_file(p):
    if p.get('oracle') == 'custom-precedence':
        f = check_custom_precedence()
        print('C14 replay:', f['what'] if f else 'no failure (custom precedence)')
        return 1 if f else 0
    f = check_file(p['text'], p.get('custom', []), {})
    print('C14 replay:', f['what'] if f else 'no failure (regex oracle)')
    return 1 if f else 0
