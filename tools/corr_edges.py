"""corr_edges.py -- correspondence for the generated edge programs (coq/gen/GenEdges.v): calc_error and
calc_jacobians of EdgeOdometry / EdgeLandmark for every admissible kind assignment are evaluated
inside Coq over primitive floats (lib/ProgF.v) and compared with the real methods."""
import json
import math
import os
import random
import sys

import numpy as np

import vlib
import corr_poses as cp

sys.path.insert(0, vlib.REPO)
from graphslam.vertex import Vertex  # noqa: E402
from graphslam.edge.edge_odometry import EdgeOdometry  # noqa: E402
from graphslam.edge.edge_landmark import EdgeLandmark  # noqa: E402

DIM = {'R2': 2, 'R3': 3, 'SE2': 3, 'SE3': 6}
TOL = 2.0 ** -34


def gen_vals(rng, k, fl):
    v = cp.gen_pose_vals(rng, k, fl)
    n = 2 if k in ('R2', 'SE2') else 3
    for i in range(n):
        v[i] = max(-1e4, min(1e4, v[i]))
    return v


def build(name, vals):
    """name like odo_SE3 / lmk_SE2_R2; vals = [p0, p1, z, off]; returns the real edge"""
    parts = name.split('_')
    if parts[0] == 'odo':
        k = parts[1]
        vs = [Vertex(0, cp.make_pose(k, vals[0])), Vertex(1, cp.make_pose(k, vals[1]))]
        e = EdgeOdometry([0, 1], np.eye(DIM[k]), cp.make_pose(k, vals[2]), vs)
        return e, [k, k, k, None]
    k0, k1 = parts[1], parts[2]
    vs = [Vertex(0, cp.make_pose(k0, vals[0])), Vertex(1, cp.make_pose(k1, vals[1]))]
    e = EdgeLandmark([0, 1], np.eye(DIM[k1]), cp.make_pose(k1, vals[2]), cp.make_pose(k0, vals[3]), vertices=vs)
    return e, [k0, k1, k1, k0]


def angles_for_table(e, kinds):
    """every angle that may appear under sin/cos in some stage (inputs and intermediate SE(2) poses)"""
    xs = set()

    def add(p):
        for x in np.asarray(p, dtype=np.float64).reshape(-1):
            x = float(x)
            if x == x and not math.isinf(x):
                xs.add(x)
    poses = [e.vertices[0].pose, e.vertices[1].pose, e.estimate]
    if kinds[3]:
        poses.append(e.offset)
    for p in poses:
        add(p)
    try:
        if kinds[3] is None:
            d = e.vertices[1].pose - e.vertices[0].pose
            add(d)
            add(e.estimate - d)
        else:
            q = e.vertices[0].pose + e.offset
            add(q)
            add(q.inverse)
            add(q.inverse + e.vertices[1].pose)
    except Exception:  # noqa
        pass
    return sorted(xs)


def run(summ, seed, per_def):
    rng = random.Random(seed)
    names = sorted(set(d.rsplit('_', 1)[0] for d in summ.get('defs', {}) if d.startswith(('odo_', 'lmk_'))))
    rows = []
    hist = {}
    for name in names:
        for j in range(per_def):
            fl = 'typical' if rng.random() < 0.6 else 'adversarial'
            parts = name.split('_')
            ks = [parts[1]] * 3 + [None] if parts[0] == 'odo' else [parts[1], parts[2], parts[2], parts[1]]
            vals = [gen_vals(rng, k, fl) if k else None for k in ks]
            try:
                e, kinds = build(name, vals)
                ins = [[float(x) for x in np.asarray(p)] for p in (e.vertices[0].pose, e.vertices[1].pose, e.estimate)]
                ins.append([float(x) for x in np.asarray(e.offset)] if kinds[3] else [])
                err = [float(x) for x in np.asarray(e.calc_error()).reshape(-1)]
                jacs = [np.asarray(J, dtype=np.float64) for J in e.calc_jacobians()]
                trig = angles_for_table(e, kinds) if ('SE2' in name) else []
                rows.append((name, vals, ins, trig, err, jacs, fl))
                hist[name] = hist.get(name, 0) + 1
            except Exception as ex:  # noqa
                rows.append((name, vals, None, None, ('raise', type(ex).__name__), None, fl))
    okm, logm = vlib.make(['lib/ProgF.vo', 'gen/GenEdges.vo'])
    res = {'evaluations': 0, 'agree': 0, 'exact_components': 0, 'components': 0, 'disagreements': [], 'hist': hist, 'coq_errors': []}
    if not okm:
        res['coq_errors'].append({'file': 'make lib/ProgF.vo gen/GenEdges.vo', 'rc': 2, 'out': logm[-1500:]})
        return res
    good = [r for r in rows if r[2] is not None]
    for r in rows:
        if r[2] is None:
            res['evaluations'] += 1
            res['disagreements'].append({'def': r[0], 'vals': r[1], 'why': 'implementation raised %s on a well-typed edge' % (r[4][1],)})
    CH = 80
    srcs = []
    for ci in range(0, len(good), CH):
        chunk = good[ci:ci + CH]
        lines = ['From Coq Require Import ZArith List Floats.PrimFloat.',
                 'From GS Require Import Expr Meth ExprF Prog ProgF GenEdges.',
                 'Import ListNotations.', 'Open Scope float_scope.',
                 'Definition cases : list (prog * jprog * list (list float) * trig_table) := [']
        items = []
        for (name, vals, ins, trig, err, jacs, fl) in chunk:
            tt = '; '.join('(%s, (%s, %s))' % (vlib.coqf(x), vlib.coqf(float(np.sin(x))), vlib.coqf(float(np.cos(x)))) for x in trig)
            ii = '; '.join('[' + '; '.join(vlib.coqf(x) for x in v) + ']' for v in ins)
            items.append('  (%s_error, %s_jacobians, [%s], [%s])' % (name, name, ii, tt))
        lines.append(';\n'.join(items))
        lines.append('].')
        lines.append('Eval vm_compute in flat_map (fun c => match c with (p, j, ins, t) => dump_prog t ins p ++ dump_jprog t ins j end) cases.')
        srcs.append(('edges_%04d' % (ci // CH), '\n'.join(lines) + '\n'))
    outs = vlib.coq_eval_files(srcs, timeout=600)
    for ci, (nm, _) in enumerate(srcs):
        rc, out = outs[nm]
        chunk = good[ci * CH:(ci + 1) * CH]
        if rc != 0:
            res['coq_errors'].append({'file': nm, 'rc': rc, 'out': out[-1500:]})
            continue
        parts = vlib.split_magic(vlib.parse_ints(out))
        if len(parts) != 3 * len(chunk):
            res['coq_errors'].append({'file': nm, 'rc': rc, 'out': 'expected %d records, got %d' % (3 * len(chunk), len(parts))})
            continue
        for i, (name, vals, ins, trig, err, jacs, fl) in enumerate(chunk):
            res['evaluations'] += 1
            recs = [cp.decode(parts[3 * i + j]) for j in range(3)]
            scale = 1.0 + max(abs(x) for v in ins for x in v) ** 2
            ok = True
            why = ''
            pys = [('vec', err)] + [('mat', J) for J in jacs]
            if len(jacs) != 2:
                ok, why = False, 'implementation returned %d Jacobians' % len(jacs)
            for (kind, pv), rec in zip(pys, recs):
                if not ok:
                    break
                if kind == 'vec':
                    if rec[0] != 'vec' or len(rec[2]) != len(pv):
                        ok, why = False, 'error vector: impl length %d, model %s' % (len(pv), rec[:2])
                        break
                    cv = rec[2]
                    flat = pv
                else:
                    if rec[0] != 'mat' or (rec[1], rec[2]) != pv.shape:
                        ok, why = False, 'Jacobian shape: impl %s, model %s' % (pv.shape, rec[1:3])
                        break
                    cv = rec[3]
                    flat = [float(x) for x in pv.reshape(-1)]
                for k, (a, (v, m)) in enumerate(zip(flat, cv)):
                    res['components'] += 1
                    if a == v:
                        res['exact_components'] += 1
                    elif not (abs(a - v) <= TOL * max(m, 1e-300) * scale):
                        ok, why = False, '%s component %d: impl %r model %r (majorant %r)' % (kind, k, a, v, m)
                        break
            if ok:
                res['agree'] += 1
            else:
                res['disagreements'].append({'def': name, 'vals': vals, 'flavour': fl, 'why': why})
    return res


if __name__ == '__main__':
    summ = vlib.regen()['tr_edges.py']
    r = run(summ, int(os.environ.get('VERIF_SEED', '1')), int(sys.argv[1]) if len(sys.argv) > 1 else 5)
    r['disagreements'] = r['disagreements'][:4]
    print(json.dumps(r, indent=1, default=str)[:5000])
