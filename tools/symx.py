"""symx.py -- a small fail-closed symbolic interpreter for the subset of Python used by
graphslam/pose/*.py, graphslam/util.py and the edge error/Jacobian methods.

It executes a method body on symbolic operands and returns, for every control-flow path, the list
of symbolic comparisons taken and the symbolic result.  Anything outside the accepted subset raises
Unsupported, which the callers turn into an `RUnsupported` definition (so only theorems that mention
that definition stop building).

Scalar expressions are nested tuples:
  ('Var', i) ('Cst', int) ('CstQ', n, d) ('Pi',) ('Add', a, b) ('Sub', a, b) ('Mul', a, b)
  ('Div', a, b) ('Neg', a) ('Sq', a) ('Sin', a) ('Cos', a) ('Sqrt', a) ('Mod', a, b)
"""
import ast
from fractions import Fraction


class Unsupported(Exception):
    pass


class Fork(Exception):
    pass


class PyRaise(Exception):
    def __init__(self, name):
        super().__init__(name)
        self.name = name


class ReturnValue(Exception):
    def __init__(self, value):
        super().__init__()
        self.value = value


# ----------------------------------------------------------------------------------------------
# symbolic values
class Vec:
    """A 1-D float64 array; cls is the pose class name or None for a plain ndarray."""

    def __init__(self, elems, cls=None):
        self.elems = list(elems)
        self.cls = cls

    def __len__(self):
        return len(self.elems)


class Mat:
    def __init__(self, rows):
        self.rows = [list(r) for r in rows]


class ClsRef:
    def __init__(self, name):
        self.name = name


class Marker:
    def __init__(self, name):
        self.name = name


def is_scalar(v):
    return isinstance(v, tuple) and v and isinstance(v[0], str)


def const(v):
    """Python number -> scalar expression (exact rational meaning of the literal)."""
    if isinstance(v, bool):
        raise Unsupported("bool used as number")
    if isinstance(v, int):
        return ('Cst', v)
    if isinstance(v, float):
        if v != v or v in (float('inf'), float('-inf')):
            raise Unsupported("non-finite constant")
        if v == int(v) and abs(v) < 2 ** 53:
            return ('Cst', int(v))
        fr = Fraction(repr(v))
        return ('CstQ', fr.numerator, fr.denominator)
    raise Unsupported("constant %r" % (v,))


def as_scalar(v):
    if is_scalar(v):
        return v
    if isinstance(v, (int, float)) and not isinstance(v, bool):
        return const(v)
    raise Unsupported("scalar expected, got %s" % type(v).__name__)


def show(e):
    t = e[0]
    if t == 'Var':
        return '(Var %d)' % e[1]
    if t == 'Cst':
        return '(Cst (%d))' % e[1]
    if t == 'CstQ':
        return '(CstQ (%d) (%d))' % (e[1], e[2])
    if t == 'Pi':
        return 'Pi'
    return '(%s %s)' % (t, ' '.join(show(x) for x in e[1:]))


class Decider:
    def __init__(self, decisions):
        self.decisions = list(decisions)
        self.pos = 0
        self.conds = []

    def decide(self, lhs, op, rhs):
        if self.pos >= len(self.decisions):
            raise Fork()
        d = self.decisions[self.pos]
        self.pos += 1
        self.conds.append((lhs, op, rhs, d))
        return d


CMP = {ast.Gt: 'CGt', ast.GtE: 'CGe', ast.Lt: 'CLt', ast.LtE: 'CLe', ast.Eq: 'CEq', ast.NotEq: 'CNe'}


class Interp:
    """classes: name -> {'methods': {name: FunctionDef}, 'attrs': {name: value}, 'len': int}
       funcs: name -> FunctionDef (module-level functions, e.g. neg_pi_to_pi)
       consts: name -> scalar expression (module-level constants, e.g. TWO_PI)"""

    def __init__(self, classes, funcs, consts, hooks=None):
        self.classes = classes
        self.funcs = funcs
        self.consts = consts
        self.decider = None
        # hooks let the edge translator intercept pose-method calls (staged mode)
        self.hooks = hooks

    # ---------------------------------------------------------------- driver
    def explore(self, thunk):
        """Run thunk() under every decision path; return [(conds, outcome)] where outcome is
        ('ret', value) | ('raise', name) | ('unsupported', why)."""
        results = []
        stack = [[]]
        while stack:
            dec = stack.pop()
            self.decider = Decider(dec)
            try:
                v = thunk()
                results.append((self.decider.conds, ('ret', v)))
            except Fork:
                stack.append(dec + [False])
                stack.append(dec + [True])
            except PyRaise as ex:
                results.append((self.decider.conds, ('raise', ex.name)))
            except Unsupported as ex:
                results.append((self.decider.conds, ('unsupported', str(ex))))
            if len(results) + len(stack) > 64:
                raise Unsupported("too many paths")
        return results

    # ---------------------------------------------------------------- calls
    def call_function(self, fdef, args, kwargs=None):
        params = [a.arg for a in fdef.args.args]
        defaults = fdef.args.defaults
        env = {}
        for i, p in enumerate(params):
            if i < len(args):
                env[p] = args[i]
            elif kwargs and p in kwargs:
                env[p] = kwargs[p]
            else:
                j = i - (len(params) - len(defaults))
                if j < 0:
                    raise Unsupported("missing argument %s of %s" % (p, fdef.name))
                env[p] = self.eval(defaults[j], {})
        try:
            self.exec_block(fdef.body, env)
        except ReturnValue as r:
            return r.value
        return None

    def call_method(self, cls, name, selfv, args):
        if self.hooks is not None:
            handled, val = self.hooks(self, cls, name, selfv, args)
            if handled:
                return val
        c = self.classes.get(cls)
        if c is None or name not in c['methods']:
            raise Unsupported("no method %s.%s" % (cls, name))
        return self.call_function(c['methods'][name], [selfv] + list(args))

    def construct(self, cls, args, kwargs=None):
        c = self.classes.get(cls)
        if c is None or '__new__' not in c['methods']:
            raise Unsupported("no constructor for %s" % cls)
        v = self.call_function(c['methods']['__new__'], [ClsRef(cls)] + list(args), kwargs)
        if not isinstance(v, Vec) or v.cls != cls:
            raise Unsupported("constructor of %s did not return a %s" % (cls, cls))
        return v

    # ---------------------------------------------------------------- statements
    def exec_block(self, body, env):
        for st in body:
            self.exec_stmt(st, env)

    def exec_stmt(self, st, env):
        if isinstance(st, ast.Expr):
            if isinstance(st.value, ast.Constant) and isinstance(st.value.value, str):
                return
            self.eval(st.value, env)
            return
        if isinstance(st, ast.Pass):
            return
        if isinstance(st, ast.Return):
            raise ReturnValue(None if st.value is None else self.eval(st.value, env))
        if isinstance(st, ast.Raise):
            exc = st.exc
            if isinstance(exc, ast.Call):
                exc = exc.func
            if isinstance(exc, ast.Name):
                raise PyRaise(exc.id)
            raise Unsupported("raise form")
        if isinstance(st, ast.Assign):
            if len(st.targets) != 1:
                raise Unsupported("chained assignment")
            self.assign(st.targets[0], self.eval(st.value, env), env)
            return
        if isinstance(st, ast.AugAssign):
            tgt = st.target
            rhs = self.eval(st.value, env)
            if isinstance(tgt, ast.Name):
                cur = env.get(tgt.id)
                env[tgt.id] = self.binop(st.op, cur, rhs)
                return
            if isinstance(tgt, ast.Subscript) and isinstance(tgt.value, ast.Name):
                base = env.get(tgt.value.id)
                if not isinstance(base, Vec):
                    raise Unsupported("augmented assignment to non-vector")
                idxs = self.indices(tgt.slice, len(base), env)
                if isinstance(idxs, int):
                    idxs = [idxs]
                r = as_scalar(rhs)
                for i in idxs:
                    base.elems[i] = self.scalar_binop(st.op, base.elems[i], r)
                return
            raise Unsupported("augmented assignment target")
        if isinstance(st, ast.If):
            if self.truth(self.eval(st.test, env)):
                self.exec_block(st.body, env)
            else:
                self.exec_block(st.orelse, env)
            return
        if isinstance(st, ast.Assert):
            if not self.truth(self.eval(st.test, env)):
                raise PyRaise('AssertionError')
            return
        raise Unsupported("statement %s" % type(st).__name__)

    def assign(self, tgt, val, env):
        if isinstance(tgt, ast.Name):
            env[tgt.id] = val
            return
        if isinstance(tgt, (ast.Tuple, ast.List)):
            if isinstance(val, Vec):
                vals = val.elems
            elif isinstance(val, (list, tuple)):
                vals = list(val)
            else:
                raise Unsupported("unpacking of %s" % type(val).__name__)
            if len(vals) != len(tgt.elts):
                raise PyRaise('ValueError')
            for t, v in zip(tgt.elts, vals):
                self.assign(t, v, env)
            return
        raise Unsupported("assignment target %s" % type(tgt).__name__)

    # ---------------------------------------------------------------- expressions
    def truth(self, v):
        if isinstance(v, bool):
            return v
        if v is None:
            return False
        if isinstance(v, tuple) and v and v[0] == 'cmp':
            return self.decider.decide(v[1], v[2], v[3])
        raise Unsupported("truth value of %s" % type(v).__name__)

    def indices(self, sl, n, env):
        if isinstance(sl, ast.Slice):
            if sl.step is not None:
                raise Unsupported("slice step")
            lo = 0 if sl.lower is None else self.eval(sl.lower, env)
            hi = n if sl.upper is None else self.eval(sl.upper, env)
            if not isinstance(lo, int) or not isinstance(hi, int):
                raise Unsupported("symbolic slice bound")
            return list(range(n))[lo:hi]
        i = self.eval(sl, env)
        if not isinstance(i, int) or isinstance(i, bool):
            raise Unsupported("symbolic index")
        if i < 0:
            i += n
        if not 0 <= i < n:
            raise PyRaise('IndexError')
        return i

    def scalar_binop(self, op, a, b):
        a, b = as_scalar(a), as_scalar(b)
        if isinstance(op, ast.Add):
            return ('Add', a, b)
        if isinstance(op, ast.Sub):
            return ('Sub', a, b)
        if isinstance(op, ast.Mult):
            return ('Mul', a, b)
        if isinstance(op, ast.Div):
            return ('Div', a, b)
        if isinstance(op, ast.Mod):
            return ('Mod', a, b)
        if isinstance(op, ast.Pow):
            if b == ('Cst', 2):
                return ('Sq', a)
            raise Unsupported("power other than 2")
        raise Unsupported("operator %s" % type(op).__name__)

    def binop(self, op, a, b):
        if isinstance(a, Vec) and a.cls is not None and isinstance(op, (ast.Add, ast.Sub)):
            return self.call_method(a.cls, '__add__' if isinstance(op, ast.Add) else '__sub__', a, [b])
        if isinstance(a, int) and isinstance(b, int) and not isinstance(a, bool) and not isinstance(b, bool):
            if isinstance(op, ast.Add):
                return a + b
            if isinstance(op, ast.Sub):
                return a - b
            if isinstance(op, ast.Mult):
                return a * b
        if isinstance(a, Vec) or isinstance(b, Vec) or isinstance(a, Mat) or isinstance(b, Mat):
            raise Unsupported("array arithmetic outside np.add/np.subtract")
        return self.scalar_binop(op, a, b)

    def eval(self, e, env):
        if isinstance(e, ast.Constant):
            if isinstance(e.value, (bool, str)) or e.value is None:
                return e.value
            if isinstance(e.value, int):
                return e.value
            return const(e.value)
        if isinstance(e, ast.Name):
            if e.id in env:
                return env[e.id]
            if e.id in self.consts:
                return self.consts[e.id]
            if e.id in self.classes:
                return ClsRef(e.id)
            if e.id in ('np', 'math'):
                return Marker(e.id)
            if e.id in self.funcs:
                return Marker('func:' + e.id)
            if e.id in ('len', 'isinstance', 'float', 'int'):
                return Marker('builtin:' + e.id)
            raise Unsupported("unknown name %s" % e.id)
        if isinstance(e, (ast.List, ast.Tuple)):
            return [self.eval(x, env) for x in e.elts]
        if isinstance(e, ast.UnaryOp):
            v = self.eval(e.operand, env)
            if isinstance(e.op, ast.USub):
                if isinstance(v, int) and not isinstance(v, bool):
                    return -v
                if isinstance(v, Mat):
                    return Mat([[('Neg', x) if x != ('Cst', 0) else x for x in r] for r in v.rows])
                if isinstance(v, Vec):
                    raise Unsupported("negated vector")
                return ('Neg', as_scalar(v))
            if isinstance(e.op, ast.Not):
                return not self.truth(v)
            raise Unsupported("unary operator")
        if isinstance(e, ast.BinOp):
            return self.binop(e.op, self.eval(e.left, env), self.eval(e.right, env))
        if isinstance(e, ast.BoolOp):
            if isinstance(e.op, ast.And):
                for x in e.values:
                    if not self.truth(self.eval(x, env)):
                        return False
                return True
            for x in e.values:
                if self.truth(self.eval(x, env)):
                    return True
            return False
        if isinstance(e, ast.IfExp):
            if self.truth(self.eval(e.test, env)):
                return self.eval(e.body, env)
            return self.eval(e.orelse, env)
        if isinstance(e, ast.Compare):
            if len(e.ops) != 1:
                raise Unsupported("chained comparison")
            a = self.eval(e.left, env)
            b = self.eval(e.comparators[0], env)
            op = e.ops[0]
            if isinstance(a, int) and isinstance(b, int):
                return {ast.Gt: a > b, ast.GtE: a >= b, ast.Lt: a < b, ast.LtE: a <= b,
                        ast.Eq: a == b, ast.NotEq: a != b}[type(op)]
            if type(op) not in CMP:
                raise Unsupported("comparison operator")
            return ('cmp', as_scalar(a), CMP[type(op)], as_scalar(b))
        if isinstance(e, ast.Subscript):
            base = self.eval(e.value, env)
            if isinstance(base, Vec):
                idx = self.indices(e.slice, len(base), env)
                if isinstance(idx, int):
                    return base.elems[idx]
                return Vec([base.elems[i] for i in idx])
            if isinstance(base, list):
                idx = self.indices(e.slice, len(base), env)
                if isinstance(idx, int):
                    return base[idx]
                return [base[i] for i in idx]
            raise Unsupported("subscript of %s" % type(base).__name__)
        if isinstance(e, ast.Attribute):
            base = self.eval(e.value, env)
            return self.getattr(base, e.attr)
        if isinstance(e, ast.Call):
            return self.eval_call(e, env)
        raise Unsupported("expression %s" % type(e).__name__)

    def getattr(self, base, attr):
        if isinstance(base, Marker) and base.name == 'np':
            if attr == 'pi':
                return ('Pi',)
            return Marker('np.' + attr)
        if isinstance(base, Marker) and base.name == 'np.linalg':
            return Marker('np.linalg.' + attr)
        if isinstance(base, Marker) and base.name == 'math':
            return Marker('math.' + attr)
        if isinstance(base, Vec) and base.cls is not None:
            c = self.classes[base.cls]
            if attr in c['attrs']:
                return c['attrs'][attr]
            if attr in c['props']:
                return self.call_method(base.cls, attr, base, [])
            if attr in c['methods']:
                return ('bound', base, attr)
            raise Unsupported("attribute %s of %s" % (attr, base.cls))
        if isinstance(base, Vec):
            if attr == 'view':
                return ('bound', base, 'view')
            raise Unsupported("attribute %s of ndarray" % attr)
        if isinstance(base, ClsRef):
            c = self.classes[base.name]
            if attr in c['attrs']:
                return c['attrs'][attr]
            if attr in c['methods']:
                return ('classmeth', base, attr)
            raise Unsupported("class attribute %s" % attr)
        if isinstance(base, dict) and attr in base:   # record-like objects of the edge translator
            return base[attr]
        raise Unsupported("attribute %s of %s" % (attr, type(base).__name__))

    def eval_call(self, e, env):
        f = self.eval(e.func, env)
        args = [self.eval(a, env) for a in e.args]
        kwargs = {k.arg: self.eval(k.value, env) for k in e.keywords}
        if isinstance(f, Marker):
            return self.call_marker(f.name, args, kwargs)
        if isinstance(f, ClsRef):
            return self.construct(f.name, args, kwargs)
        if isinstance(f, tuple) and f and f[0] == 'bound':
            _, base, name = f
            if name == 'view':
                if len(args) == 1 and isinstance(args[0], ClsRef):
                    return Vec(base.elems, args[0].name)
                raise Unsupported("view argument")
            return self.call_method(base.cls, name, base, args)
        if isinstance(f, tuple) and f and f[0] == 'classmeth':
            _, cref, name = f
            return self.call_function(self.classes[cref.name]['methods'][name], [cref] + args, kwargs)
        if callable(f):
            return f(*args)
        raise Unsupported("call of %s" % type(f).__name__)

    def to_vec(self, v):
        if isinstance(v, Vec):
            return Vec(v.elems)
        if isinstance(v, list):
            if all(not isinstance(x, (list, Vec, Mat)) for x in v):
                return Vec([as_scalar(x) for x in v])
        raise Unsupported("not convertible to a 1-D array")

    def call_marker(self, name, args, kwargs):
        if name == 'builtin:len':
            if isinstance(args[0], (Vec, list)):
                return len(args[0])
            raise Unsupported("len of %s" % type(args[0]).__name__)
        if name == 'builtin:isinstance':
            x, c = args
            cs = c if isinstance(c, list) else [c]
            for c1 in cs:
                if isinstance(c1, Marker) and c1.name == 'np.ndarray':
                    if isinstance(x, (Vec, Mat)):
                        return True
                elif isinstance(c1, ClsRef):
                    if isinstance(x, Vec) and x.cls is not None and (
                            x.cls == c1.name or c1.name in self.classes[x.cls].get('bases', ())):
                        return True
                else:
                    raise Unsupported("isinstance class")
            return False
        if name in ('np.array', 'np.asarray'):
            dt = kwargs.get('dtype')
            if dt is not None and not (isinstance(dt, Marker) and dt.name == 'np.float64'):
                raise Unsupported("dtype")
            if len(args) != 1:
                raise Unsupported("np.array arguments")
            a = args[0]
            if isinstance(a, list) and a and all(isinstance(r, list) for r in a):
                n = len(a[0])
                if any(len(r) != n for r in a):
                    raise Unsupported("ragged matrix")
                return Mat([[as_scalar(x) for x in r] for r in a])
            return self.to_vec(a)
        if name in ('np.sin', 'np.cos', 'np.sqrt'):
            return ({'np.sin': 'Sin', 'np.cos': 'Cos', 'np.sqrt': 'Sqrt'}[name], as_scalar(args[0]))
        if name in ('np.mod', 'np.remainder') and len(args) == 2 and not kwargs:      # same function as the % operator on floats
            return ('Mod', as_scalar(args[0]), as_scalar(args[1]))
        if name == 'np.square' and len(args) == 1 and not kwargs:
            return ('Sq', as_scalar(args[0]))
        if name == 'np.negative' and len(args) == 1 and not kwargs:
            return ('Neg', as_scalar(args[0]))
        if name == 'np.linalg.norm':
            v = self.to_vec(args[0])
            if not v.elems:
                raise Unsupported("norm of empty vector")
            s = ('Sq', v.elems[0])
            for x in v.elems[1:]:
                s = ('Add', s, ('Sq', x))
            return ('Sqrt', s)
        if name == 'np.eye':
            n = args[0]
            if not isinstance(n, int) or len(args) != 1:
                raise Unsupported("np.eye arguments")
            return Mat([[('Cst', 1 if i == j else 0) for j in range(n)] for i in range(n)])
        if name in ('np.add', 'np.subtract'):
            a, b = self.to_vec(args[0]), self.to_vec(args[1])
            if len(a) != len(b):
                if len(a) == 1 or len(b) == 1:
                    raise Unsupported("broadcast")
                raise PyRaise('ValueError')
            t = 'Add' if name == 'np.add' else 'Sub'
            return Vec([(t, x, y) for x, y in zip(a.elems, b.elems)])
        if name.startswith('func:'):
            return self.call_function(self.funcs[name[5:]], args, kwargs)
        raise Unsupported("call of %s" % name)
