#!/bin/bash
# developer tool: re-evaluate every kept seeded change (seeded/Cxx_m*) against the current machinery, 3 at a time; results land in
# seeded/<name>/meta.json (confirmed.checks) and a one-line summary per seed in build/seeded.log
cd /verif
: > build/seeded.log
ls -d seeded/C??_m* | while read d; do n=$(basename $d); echo "${n%_*} /verif/$d $n --skip-tests"; done | \
  xargs -P 3 -L 1 bash -c 'python3 tools/seedtest.py $0 $1 $2 $3 2>&1 | tail -1 >> build/seeded.log'
echo DONE >> build/seeded.log
