"""oracle_edges.py -- direct oracles on the implementation for the edge-level properties (C01, C02, C07, C08)."""
import copy
import math
import random

import numpy as np

import corr_poses as cp
import corr_edges as ce
from corr_edges import DIM


def edge_names():
    return ['odo_R2', 'odo_R3', 'odo_SE2', 'odo_SE3', 'lmk_SE2_R2', 'lmk_SE3_R3', 'lmk_R2_R2', 'lmk_R3_R3']


def kinds_of(name):
    parts = name.split('_')
    return [parts[1]] * 3 + [None] if parts[0] == 'odo' else [parts[1], parts[2], parts[2], parts[1]]


def gen_case(rng, name, fl):
    ks = kinds_of(name)
    vals = [ce.gen_vals(rng, k, fl) if k else None for k in ks]
    # keep SE(2) angles away from the wrap in the oracle (the property excludes the wrapping error angle)
    return vals


def num_jacobians(e, h=1e-6):
    """central differences of calc_error through pose + delta (the boxplus of the code)"""
    out = []
    for k, v in enumerate(e.vertices):
        dim = v.pose.COMPACT_DIMENSIONALITY
        p0 = v.pose.copy()
        J = None
        for d in range(dim):
            dp = np.zeros(dim); dp[d] = h
            v.pose = p0 + dp
            ep = np.asarray(e.calc_error(), dtype=np.float64).copy()
            v.pose = p0 + (-dp)
            em = np.asarray(e.calc_error(), dtype=np.float64).copy()
            v.pose = p0.copy()
            col = (ep - em) / (2 * h)
            if J is None:
                J = np.zeros((len(col), dim))
            J[:, d] = col
        out.append(J)
    return out


def near_wrap(e, name):
    if 'SE2' not in name:
        return False
    angs = []
    try:
        if name.startswith('odo'):
            # the only excluded points are those where the error itself jumps: angle residual z - (th2 - th1) at an odd multiple of pi
            # (theorem C01, SE(2) odometry); vertex headings of exactly +-pi, quarter turns etc. are NOT excluded
            r = float(e.estimate[2]) - (float(e.vertices[1].pose[2]) - float(e.vertices[0].pose[2]))
            angs = [math.remainder(r, 2 * math.pi)]
        else:
            angs = []        # the landmark error has no angular component: nothing is excluded
    except Exception:  # noqa
        return False
    return any(abs(abs(float(a)) - math.pi) < 0.02 for a in angs)


def make_vals_in_range(rng, k):
    """moderate pose values of kind k written straight into a pose array (no constructor: SE(2) angle kept inside (-3, 3), unit quaternion)"""
    if k == 'R2':
        return [rng.uniform(-5, 5), rng.uniform(-5, 5)]
    if k == 'R3':
        return [rng.uniform(-5, 5) for _ in range(3)]
    if k == 'SE2':
        return [rng.uniform(-5, 5), rng.uniform(-5, 5), rng.uniform(-3, 3)]
    q = [rng.gauss(0, 1) for _ in range(4)]
    n = math.sqrt(sum(x * x for x in q))
    return [rng.uniform(-5, 5) for _ in range(3)] + [x / n for x in q]


def check_edge_jacobians(seed, n_per):
    rng = random.Random(seed)
    fails, evals = [], 0
    for name in edge_names():
        for i in range(n_per):
            fl = 'typical' if rng.random() < 0.6 else 'adversarial'
            vals = gen_case(rng, name, fl)
            try:
                e, kinds = ce.build(name, vals)
                for v in e.vertices:             # an anchored vertex (or the first vertex after an optimize()): the derivative is what it is
                    if rng.random() < 0.25:
                        v.fixed = rng.choice([True, np.bool_(True), 1])
                if all(k in ('R2', 'R3') for k in kinds if k) and rng.random() < 0.5:
                    # R^n edges are affine: their Jacobians do not depend on where the points are -- bitwise the same matrices near the origin
                    # and at survey coordinates (UTM / ECEF magnitudes)
                    J0 = [np.asarray(J, dtype=np.float64).copy() for J in e.calc_jacobians()]
                    shift = np.array([rng.uniform(-1, 1) * 6.4e6 for _ in range(len(np.asarray(e.vertices[0].pose)))])
                    keep = [v.pose for v in e.vertices]
                    for v in e.vertices:
                        v.pose = type(v.pose)(np.asarray(v.pose, dtype=np.float64) + shift)
                    J1 = [np.asarray(J, dtype=np.float64).copy() for J in e.calc_jacobians()]
                    for v, p0 in zip(e.vertices, keep):
                        v.pose = p0
                    evals += 1
                    if any(a.shape != b.shape or not np.array_equal(a, b) for a, b in zip(J0, J1)):
                        fails.append({'edge': name, 'vals': vals, 'why': 'the Jacobians of an affine R^n edge change when both points are moved by %s: max difference %g'
                                      % (shift.tolist(), max(float(np.abs(a - b).max()) for a, b in zip(J0, J1) if a.shape == b.shape)), 'shift': shift.tolist()})
                        continue
                seq = None
                if rng.random() < 0.3:
                    # HISTORY that must not matter: the error / chi2 was evaluated at other poses, then a vertex pose array was
                    # overwritten IN PLACE (poses are numpy arrays) -- the Jacobians must be those of the CURRENT poses
                    seq = rng.choice(['calc_error', 'calc_chi2', 'calc_jacobians'])
                    getattr(e, seq)()
                    kk = rng.randrange(2)
                    vals0 = [list(v) if v is not None else None for v in vals]
                    nv = make_vals_in_range(rng, kinds[kk])
                    arr = e.vertices[kk].pose
                    np.ndarray.__setitem__(arr, slice(None), np.array(nv, dtype=np.float64))
                    vals = [list(map(float, np.asarray(e.vertices[0].pose))), list(map(float, np.asarray(e.vertices[1].pose)))] + list(vals[2:])
                if near_wrap(e, name):
                    continue
                if rng.random() < 0.25:
                    # the information matrix as callers write it: an integer array (np.eye(n, dtype=int), np.diag([100, 100, 400])) or float32;
                    # the Jacobians are derivatives of the error and have nothing to do with it
                    n_ = len(np.asarray(e.calc_error()))
                    e.information = rng.choice([np.eye(n_, dtype=int), np.diag([rng.randint(1, 400) for _ in range(n_)]),
                                                np.eye(n_, dtype=np.float32), np.diag([rng.randint(1, 9) for _ in range(n_)]).astype(np.int8)])
                Ja = [np.asarray(J, dtype=np.float64) for J in e.calc_jacobians()]
                Jn = num_jacobians(e)
                Jn2 = num_jacobians(e, h=3e-6)      # second step size: the disagreement of the two estimates measures the rounding noise
                evals += 1                          # of the difference quotient itself (|values| up to 1e8 with 1e4 translations and non-unit quaternions)
                for k, (a, b, b2) in enumerate(zip(Ja, Jn, Jn2)):
                    if a.shape != b.shape:
                        fails.append({'edge': name, 'vals': vals, 'vertex': k, 'why': 'shape %s vs %s' % (a.shape, b.shape)})
                        break
                    scale = 1.0 + np.abs(a).max() + np.abs(b).max()
                    err = np.abs(a - b).max()
                    unc = float(np.abs(b - b2).max()) if b.shape == b2.shape else 0.0
                    if not err <= 5e-5 * scale + 10.0 * unc:
                        fails.append({'edge': name, 'vals': vals, 'vertex': k, 'why': 'max |J - numeric| = %g (scale %g)' % (err, scale),
                                      'after_history': seq and {'call': seq, 'then': 'pose array of vertex %d overwritten in place' % kk, 'vertex': kk,
                                                                'initial_vals': vals0},
                                      'analytic': a.tolist(), 'numeric': b.tolist()})
                        break
            except Exception as ex:  # noqa
                fails.append({'edge': name, 'vals': vals, 'why': 'raised %r' % (ex,)})
    # the perturbation applied the way the optimizer and the numerical-Jacobian helper apply it (vertex.pose += delta), on R^n edges whose points
    # (or a point and the measurement) were built from ONE float64 array -- e.g. every vertex initialised from the same initial-guess array
    for name in edge_names():
        kinds = kinds_of(name)
        if not all(k in ('R2', 'R3') for k in kinds if k):
            continue
        for i in range(max(2, n_per // 4)):
            vals = gen_case(rng, name, 'typical')
            mode = rng.choice(['both_vertices', 'vertex0_and_measurement', 'vertex1_and_measurement', 'separate'])
            try:
                e, _ = ce.build(name, vals)
                shared = np.array(vals[0], dtype=np.float64)
                if mode == 'both_vertices':
                    for v in e.vertices:
                        v.pose = type(v.pose)(shared)
                elif mode != 'separate':
                    k_ = 0 if mode.startswith('vertex0') else 1
                    e.vertices[k_].pose = type(e.vertices[k_].pose)(shared)
                    e.estimate = type(e.estimate)(shared)
                vals = [[float(x) for x in np.asarray(e.vertices[0].pose)], [float(x) for x in np.asarray(e.vertices[1].pose)],
                        [float(x) for x in np.asarray(e.estimate)]] + list(vals[3:])
                Ja = [np.asarray(J, dtype=np.float64).copy() for J in e.calc_jacobians()]
                evals += 1
                h = 1e-3
                for k, v in enumerate(e.vertices):
                    dim = len(np.asarray(v.pose))
                    Jn = np.zeros((len(np.asarray(e.calc_error())), dim))
                    for d in range(dim):
                        dp = np.zeros(dim); dp[d] = h
                        keep = v.pose
                        v.pose += dp
                        ep = np.asarray(e.calc_error(), dtype=np.float64).copy()
                        v.pose = keep
                        v.pose += -dp
                        em = np.asarray(e.calc_error(), dtype=np.float64).copy()
                        v.pose = keep
                        Jn[:, d] = (ep - em) / (2 * h)
                    if Ja[k].shape != Jn.shape or not np.abs(Ja[k] - Jn).max() <= 1e-6:
                        fails.append({'edge': name, 'vals': vals, 'vertex': k, 'why': 'points built from one array (%s), perturbed by vertex.pose += delta: max |J - numeric| = %g'
                                      % (mode, float(np.abs(Ja[k] - Jn).max()) if Ja[k].shape == Jn.shape else float('nan')),
                                      'shared_array': mode, 'analytic': Ja[k].tolist(), 'numeric': Jn.tolist()})
                        break
            except Exception as ex:  # noqa
                fails.append({'edge': name, 'vals': vals, 'why': 'raised %r' % (ex,)})
    return evals, fails


# ------------------------------------------------------------------------------------------------
# C02: measurement model against an independent numpy homogeneous-matrix implementation
def prebind(rng, edges, verts, p=0.3):
    """Some of the edge objects arrive ALREADY BOUND to foreign Vertex objects with the same ids and pose types but other estimates (as if
    constructed with vertices=[...], or used by an earlier Graph built from another initial guess).  Graph(edges, verts) must re-bind them."""
    if rng.random() > p or not edges:
        return False
    from graphslam.vertex import Vertex as _V
    from graphslam.graph import Graph as _G
    decoy = {}
    for v in verts:
        d = np.array([rng.gauss(0, 0.7) for _ in range(v.pose.COMPACT_DIMENSIONALITY)])
        decoy[v.id] = _V(v.id, v.pose + d)
    if rng.random() < 0.5:
        try:
            _G(list(edges), list(decoy.values()))       # an earlier graph over the decoys
        except Exception:  # noqa
            pass
    else:
        for e in edges:
            if rng.random() < 0.7 and all(i in decoy for i in e.vertex_ids):
                e.vertices = [decoy[i] for i in e.vertex_ids]
    return True


def rand_spd(rng, n, cond=1e3):
    A = np.array([[rng.gauss(0, 1) for _ in range(n)] for _ in range(n)])
    Q, _ = np.linalg.qr(A)
    ev = np.array([10 ** rng.uniform(0, math.log10(cond)) for _ in range(n)])
    M = Q @ np.diag(ev) @ Q.T
    return (M + M.T) / 2


def unit_vals(vals, kinds):
    out = []
    for v, k in zip(vals, kinds):
        if v is not None and k == 'SE3':
            v = list(v)
            nn = math.sqrt(sum(x * x for x in v[3:]))
            v[3:] = [x / nn for x in v[3:]]
        out.append(v)
    return out


def _qmul(a, b):
    """Hamilton product, components (x, y, z, w)"""
    ax, ay, az, aw = a
    bx, by, bz, bw = b
    return np.array([aw * bx + ax * bw + ay * bz - az * by,
                     aw * by - ax * bz + ay * bw + az * bx,
                     aw * bz + ax * by - ay * bx + az * bw,
                     aw * bw - ax * bx - ay * by - az * bz])


def _qconj(a):
    return np.array([-a[0], -a[1], -a[2], a[3]])


def measurement_model(seed, n_per):
    from oracle_poses import hom
    from graphslam.graph import Graph
    rng = random.Random(seed)
    fails, evals = [], 0
    for name in edge_names():
        kinds = kinds_of(name)
        for i in range(n_per):
            fl = 'typical' if rng.random() < 0.7 else 'adversarial'
            vals = unit_vals(gen_case(rng, name, fl), kinds)
            try:
                e, _ = ce.build(name, vals)
                if all(k in ('R2', 'R3') for k in kinds if k) and rng.random() < 0.35:
                    # points given as numpy arrays of another dtype (pixel / voxel coordinates as uint8 or int8, float32 data): the SAME numbers
                    dt = rng.choice([np.uint8, np.int8, np.uint16, np.float32, np.int64])
                    lo, hi = (0, 250) if dt in (np.uint8, np.uint16) else (-120, 120)
                    for v in e.vertices:
                        arr = np.array([rng.randint(lo, hi) for _ in range(len(np.asarray(v.pose)))], dtype=dt)
                        v.pose = type(v.pose)(arr)
                    if rng.random() < 0.5 and getattr(e, 'offset', None) is not None:
                        e.offset = type(e.offset)(np.array([rng.randint(lo, hi) for _ in range(len(np.asarray(e.offset)))], dtype=dt))
                    vals = [[float(x) for x in np.asarray(e.vertices[0].pose)], [float(x) for x in np.asarray(e.vertices[1].pose)], vals[2],
                            ([float(x) for x in np.asarray(e.offset)] if getattr(e, 'offset', None) is not None else None)]
                evals += 1
                err = np.asarray(e.calc_error(), dtype=np.float64)
                sc = 1.0 + max(abs(x) for v in vals if v for x in v) ** 2
                if name.startswith('odo'):
                    k = kinds[0]
                    M1, M2, Mz = (hom(k, np.asarray(p)) for p in (e.vertices[0].pose, e.vertices[1].pose, e.estimate))
                    ME = np.linalg.inv(np.linalg.inv(M1) @ M2) @ Mz
                    # rebuild the error pose from the returned compact error and compare matrices
                    if k == 'SE3':
                        # the compact form drops w; the error pose is (v, +-sqrt(1-|v|^2)) -- accept either sign
                        w2 = 1.0 - float(err[3] ** 2 + err[4] ** 2 + err[5] ** 2)
                        ok = any(np.allclose(hom(k, list(err) + [sg * math.sqrt(max(w2, 0.0))]), ME, rtol=0, atol=1e-7 * sc) for sg in (1.0, -1.0))
                        # the rotational part of the error IS the vector part of the Hamilton product q_rel^* q_z with q_rel = q_1^* q_2
                        # (no sign canonicalisation: -v is the compact form of a different quaternion); independent numpy products
                        q1, q2, qz = (np.asarray(p, dtype=np.float64)[3:] for p in (e.vertices[0].pose, e.vertices[1].pose, e.estimate))
                        qe = _qmul(_qconj(_qmul(_qconj(q1), q2)), qz)
                        if ok and not np.allclose(err[3:6], qe[:3], rtol=0, atol=1e-9):
                            fails.append({'edge': name, 'vals': vals, 'law': 'rotational part of the SE(3) odometry error is not the vector part of the Hamilton '
                                          'product (q1^* q2)^* qz (sign included)', 'err': err.tolist(), 'expected_vector_part': qe[:3].tolist(), 'w_of_error': float(qe[3])})
                            continue
                    else:
                        ok = np.allclose(hom(k, list(err)), ME, rtol=0, atol=1e-8 * sc)
                    if not ok:
                        fails.append({'edge': name, 'vals': vals, 'law': 'odometry error is not compact((p1^-1 p2)^-1 z)', 'err': err.tolist()})
                        continue
                else:
                    k0, k1 = kinds[0], kinds[1]
                    MQ = hom(k0, np.asarray(e.vertices[0].pose)) @ hom(k0, np.asarray(e.offset))
                    l = np.asarray(e.vertices[1].pose, dtype=np.float64)
                    x = (np.linalg.inv(MQ) @ np.array(list(l) + [1.0]))[:-1]
                    if not np.allclose(err, x - np.asarray(e.estimate), rtol=0, atol=1e-8 * sc):
                        fails.append({'edge': name, 'vals': vals, 'law': 'landmark error is not (p (+) offset)^-1 . l - z', 'err': err.tolist()})
                        continue
                # chi2 = e^T Omega e with a non-diagonal SPD information; linear in Omega; non-negative
                n = len(err)
                Om = rand_spd(rng, n, cond=10 ** rng.uniform(0, 8))
                # ... and for ANY symmetric matrix the value is the plain quadratic form (a difference of two SPD matrices, as in a linearity check)
                Oi = rand_spd(rng, n, cond=10.0) - 2.0 * rand_spd(rng, n, cond=10.0)
                e.information = Oi
                ci, refi = float(e.calc_chi2()), float(err @ Oi @ err)
                if not abs(ci - refi) <= 1e-9 * (abs(refi) + float(np.abs(Oi).max()) * float(err @ err)) + 1e-300:
                    fails.append({'edge': name, 'vals': vals, 'law': 'chi2 != e^T Omega e for a symmetric indefinite Omega', 'chi2': ci, 'ref': refi,
                                  'information': Oi.tolist()})
                    continue
                e.information = Om
                c = float(e.calc_chi2())
                ref = float(err @ Om @ err)
                if not abs(c - ref) <= 1e-9 * (abs(ref) + 1e-300) + 1e-300 or c < 0:
                    fails.append({'edge': name, 'vals': vals, 'law': 'chi2 != e^T Omega e (or negative)', 'chi2': c, 'ref': ref})
                    continue
                e.information = 3.0 * Om
                c3 = float(e.calc_chi2())
                if not abs(c3 - 3 * c) <= 1e-9 * abs(3 * c) + 1e-300:
                    fails.append({'edge': name, 'vals': vals, 'law': 'chi2 not linear in Omega', 'chi2': c, 'chi2_3': c3})
                    continue
                # ... linear for EVERY positive factor: a power of two scales every product exactly, so the value scales to the last bits
                # (information of 1e-9 .. 1e-15: weak priors, other units)
                pw = rng.choice([20, 30, 40, 50, -30])
                e.information = Om * 2.0 ** -pw
                cs = float(e.calc_chi2())
                if not abs(cs - c * 2.0 ** -pw) <= 1e-9 * abs(c * 2.0 ** -pw):
                    fails.append({'edge': name, 'vals': vals, 'law': 'chi2 not linear in Omega: information scaled by 2^%d gives %r, expected %r' % (-pw, cs, c * 2.0 ** -pw),
                                  'information': (Om * 2.0 ** -pw).tolist()})
                    continue
                e.information = Om
                # a consistent measurement has zero error
                if name.startswith('odo'):
                    e.estimate = e.vertices[1].pose - e.vertices[0].pose
                else:
                    e.estimate = (e.vertices[0].pose + e.offset).inverse + e.vertices[1].pose
                z0 = np.asarray(e.calc_error(), dtype=np.float64)
                if not np.abs(z0).max() <= 1e-9 * sc:
                    fails.append({'edge': name, 'vals': vals, 'law': 'consistent measurement has non-zero error', 'err': z0.tolist()})
            except Exception as ex:  # noqa
                fails.append({'edge': name, 'vals': vals, 'law': 'raised %r' % (ex,)})
    # SE(2) odometry: the angular component of the error is the residual normalised to [-pi, pi) -- also when it is EXACTLY +-pi
    from graphslam.pose.se2 import PoseSE2 as _SE2
    from graphslam.vertex import Vertex as _V
    from graphslam.edge.edge_odometry import EdgeOdometry as _EO
    for (t1, t2, tz) in [(0.0, -math.pi / 2, math.pi / 2), (0.0, math.pi / 2, -math.pi / 2), (math.pi / 2, -math.pi / 2, 0.0), (0.25, 0.25, math.pi),
                         (0.0, 0.0, -math.pi), (1.0, -2.0, 0.5), (3.0, -3.0, 0.2)] + [(rng.uniform(-3, 3), rng.uniform(-3, 3), rng.uniform(-3, 3)) for _ in range(n_per)]:
        evals += 1
        e = _EO([0, 1], np.eye(3), _SE2([0.3, -0.2], tz), [_V(0, _SE2([1.0, 2.0], t1)), _V(1, _SE2([-1.0, 0.5], t2))])
        ang = float(np.asarray(e.calc_error())[2])
        a1, a2, az = float(e.vertices[0].pose[2]), float(e.vertices[1].pose[2]), float(e.estimate[2])
        resid = az - (a2 - a1)
        if not (-math.pi <= ang < math.pi) or abs(math.remainder(ang - resid, 2 * math.pi)) > 1e-9:
            fails.append({'edge': 'odo_SE2', 'vals': [[1.0, 2.0, t1], [-1.0, 0.5, t2], [0.3, -0.2, tz], None],
                          'law': 'angular component %r of the SE(2) odometry error is not the residual %r normalised to [-pi, pi)' % (ang, resid)})
    # graph chi2 = sum of edge chi2
    from graphslam.vertex import Vertex
    from graphslam.edge.edge_odometry import EdgeOdometry
    for i in range(max(8, n_per // 2)):
        evals += 1
        nv = rng.randint(2, 6)
        # any pattern of fixed vertices (edges between two fixed vertices still count in chi2)
        vs = [Vertex(j, cp.make_pose('SE2', ce.gen_vals(rng, 'SE2', 'typical')), fixed=(rng.random() < 0.5)) for j in range(nv)]
        es = []
        for j in range(rng.randint(1, 8)):
            a, b = rng.randrange(nv), rng.randrange(nv)
            if a == b:
                continue
            es.append(EdgeOdometry([a, b], rand_spd(rng, 3), cp.make_pose('SE2', ce.gen_vals(rng, 'SE2', 'typical'))))
        prebind(rng, es, vs, 0.4)
        g = Graph(es, vs)
        tot = g.calc_chi2()
        ref = 0.0
        byid = {v.id: v for v in vs}
        for e in es:
            e2 = copy.copy(e)          # the edge evaluated at THIS graph's vertices, bound here by id
            e2.vertices = [byid[i] for i in e2.vertex_ids]
            ref = ref + e2.calc_chi2()
        if tot != ref:
            fails.append({'edge': 'graph', 'law': 'graph chi2 is not the sum of the edge chi2 in list order', 'total': float(tot), 'sum': float(ref)})
            continue
        # the same Graph object again after its state was changed through public attributes: chi2 must follow
        if es:
            for e in es:
                e.information = 2.0 * e.information
            tot2 = g.calc_chi2()
            if not abs(tot2 - 2 * tot) <= 1e-9 * abs(2 * tot) + 1e-300:
                fails.append({'edge': 'graph', 'law': 'after doubling every information matrix of an already evaluated graph, calc_chi2() returns %r instead of %r (stale value)' % (float(tot2), float(2 * tot))})
                continue
            for e in es:
                e.estimate = e.vertices[1].pose - e.vertices[0].pose
            tot3 = g.calc_chi2()
            if not abs(tot3) <= 1e-12 * (1 + abs(tot)):
                fails.append({'edge': 'graph', 'law': 'after making every measurement consistent with the vertices of an already evaluated graph, calc_chi2() returns %r instead of 0' % float(tot3)})
    # the measurement model THROUGH the .g2o entry point: a file in the standard layout (written here, not by the library's exporter) whose vertex ids
    # are of every size -- small, negative, around 2^31, and beyond 2^53 where neighbouring integers are not all doubles.  Every edge must be bound to
    # the vertices the file names and the graph chi2 must be the in-memory value
    import os
    import tempfile
    from graphslam.pose.se2 import PoseSE2 as _P2
    for i in range(max(4, n_per // 4)):
        kind = rng.choice(['SE2', 'SE3'])
        path = os.path.join(tempfile.gettempdir(), 'verif_c02_%d.g2o' % os.getpid())
        try:
            g0, _ = build_graph(rng, kind, nv=rng.randint(3, 6), landmarks=True)
            for e in g0._edges:
                if kind == 'SE2' and getattr(e, 'offset', None) is not None:
                    e.offset = _P2.identity()                       # EDGE_SE2_XY carries no offset
                if kind == 'SE3' and len(np.asarray(e.estimate)) == 7 and rng.random() < 0.3:
                    # a measured half turn, scalar part exactly zero and written with either sign of zero ("0.0" / "-0.0" are the same number)
                    ax_ = rng.choice([[0.0, 0.0, 1.0], [1.0, 0.0, 0.0], [0.6, 0.8, 0.0], [0.0, -0.6, 0.8]])
                    e.estimate = type(e.estimate)(np.asarray(e.estimate)[:3], list(ax_) + [rng.choice([0.0, -0.0])])
                if kind == 'SE3' and len(np.asarray(e.estimate)) == 7 and float(e.estimate[6]) < 0:
                    e.estimate = type(e.estimate)(np.asarray(e.estimate)[:3], -np.asarray(e.estimate)[3:])   # the loader's canonical sign (q and -q: same rotation)
            base = rng.choice([0, -40, 2 ** 31 - 3, 2 ** 53 - 3, 2 ** 53, 2 ** 53 + 2 ** 20, 2 ** 62, -(2 ** 53) - 9])
            idmap = {v.id: base + k for k, v in enumerate(g0._vertices)}
            want = [[idmap[x] for x in e.vertex_ids] for e in g0._edges]
            ref = 0.0
            for e in g0._edges:
                ref = ref + float(e.calc_chi2())
            with open(path, 'w') as f:
                f.write(g2o_text_any(g0, idmap))
            g1 = Graph.from_g2o(path)
            evals += 1
            got = [[int(x) for x in e.vertex_ids] for e in g1._edges]
            bound = [[int(v.id) for v in e.vertices] for e in g1._edges]
            if sorted(map(tuple, got)) != sorted(map(tuple, want)) or got != bound:
                fails.append({'edge': 'graph', 'law': 'a .g2o file with vertex ids from %d on: the loaded edges name the vertices %r and are bound to %r, the file '
                              'names %r' % (base, got, bound, want), 'kind': kind})
                continue
            c = float(g1.calc_chi2())
            if not abs(c - ref) <= 1e-9 * (1 + abs(ref)):
                fails.append({'edge': 'graph', 'law': 'a .g2o file with vertex ids from %d on: graph chi2 %r, the same measurements in memory give %r' % (base, c, ref),
                              'kind': kind})
        except Exception as ex:  # noqa
            fails.append({'edge': 'graph', 'law': 'the .g2o entry point raised %r' % (ex,), 'kind': kind})
        finally:
            if os.path.exists(path):
                os.remove(path)
    return evals, fails


def g2o_text_any(g, idmap):
    """SE(2) / SE(3) graph as .g2o text in the standard g2o layout with the vertex ids replaced through idmap; written independently of the library"""
    def nums(xs):
        return ' '.join(repr(float(x)) for x in xs)

    def triu(M):
        M = np.asarray(M, dtype=np.float64)
        return [M[i, j] for i in range(len(M)) for j in range(i, len(M))]
    tagv = {3: 'VERTEX_SE2', 2: 'VERTEX_XY', 7: 'VERTEX_SE3:QUAT'}
    se3 = any(len(np.asarray(v.pose)) == 7 for v in g._vertices)
    if se3:
        tagv[3] = 'VERTEX_TRACKXYZ'
    lines, params = [], []
    for e in g._edges:
        if getattr(e, 'offset', None) is not None and se3:
            key = tuple(float(x) for x in np.asarray(e.offset))
            if key not in params:
                params.append(key)
    for k, key in enumerate(params):
        lines.append('PARAMS_SE3OFFSET %d %s' % (7 + k, nums(key)))
    for v in g._vertices:
        lines.append('%s %d %s' % (tagv[len(np.asarray(v.pose))], idmap[v.id], nums(np.asarray(v.pose))))
    for e in g._edges:
        a, b = (idmap[x] for x in e.vertex_ids)
        z, om = nums(np.asarray(e.estimate)), nums(triu(e.information))
        if getattr(e, 'offset', None) is not None:
            if se3:
                lines.append('EDGE_SE3_TRACKXYZ %d %d %d %s %s' % (a, b, 7 + params.index(tuple(float(x) for x in np.asarray(e.offset))), z, om))
            else:
                lines.append('EDGE_SE2_XY %d %d %s %s' % (a, b, z, om))
        else:
            lines.append('%s %d %d %s %s' % ('EDGE_SE3:QUAT' if se3 else 'EDGE_SE2', a, b, z, om))
    return '\n'.join(lines) + '\n'


# ------------------------------------------------------------------------------------------------
# C07 / C08 / C05: random well-posed graphs on the implementation
def rand_unit_quat(rng, near180=False):
    if near180:
        ax = np.array([rng.gauss(0, 1) for _ in range(3)]); ax /= np.linalg.norm(ax)
        ang = math.pi - rng.uniform(0, 1e-3)
        return list(ax * math.sin(ang / 2)) + [math.cos(ang / 2)]
    q = np.array([rng.gauss(0, 1) for _ in range(4)]); q /= np.linalg.norm(q)
    return list(q)


def build_graph(rng, kind, nv=None, landmarks=True, noise=0.02, pert=0.05, info_cross=True):
    """random consistent-ish graph: chain of poses with loop closures (+ landmarks with offsets).
    kind in {'SE2','SE3','R2','R3'}; returns (graph, truth poses list)"""
    from graphslam.graph import Graph
    from graphslam.vertex import Vertex
    from graphslam.edge.edge_odometry import EdgeOdometry
    from graphslam.edge.edge_landmark import EdgeLandmark
    from graphslam.pose.se2 import PoseSE2
    from graphslam.pose.se3 import PoseSE3
    from graphslam.pose.r2 import PoseR2
    from graphslam.pose.r3 import PoseR3
    nv = nv or rng.randint(3, 8)
    P = {'SE2': PoseSE2, 'SE3': PoseSE3, 'R2': PoseR2, 'R3': PoseR3}[kind]
    pk = {'SE2': 'R2', 'SE3': 'R3', 'R2': 'R2', 'R3': 'R3'}[kind]
    PP = {'R2': PoseR2, 'R3': PoseR3}[pk]
    d = ce.DIM[kind]

    def rand_pose(scale=1.0):
        if kind == 'SE2':
            return PoseSE2([rng.gauss(0, scale), rng.gauss(0, scale)], rng.uniform(-math.pi, math.pi))
        if kind == 'SE3':
            return PoseSE3([rng.gauss(0, scale) for _ in range(3)], rand_unit_quat(rng))
        return P([rng.gauss(0, scale) for _ in range(d)])

    def small():
        if kind == 'SE2':
            return np.array([rng.gauss(0, noise), rng.gauss(0, noise), rng.gauss(0, noise / 2)])
        if kind == 'SE3':
            return np.array([rng.gauss(0, noise) for _ in range(3)] + [rng.gauss(0, noise / 4) for _ in range(3)])
        return np.array([rng.gauss(0, noise) for _ in range(d)])
    truth = [rand_pose(3.0)]
    for i in range(1, nv):
        truth.append(truth[-1] + rand_pose(1.0) if kind in ('SE2', 'SE3') else P(np.asarray(truth[-1]) + np.array([rng.gauss(0, 1) for _ in range(d)])))
    verts = [Vertex(i, (truth[i] + small() * (pert / max(noise, 1e-12))) if pert else truth[i].copy()) for i in range(nv)]
    manhattan = kind in ('SE2', 'SE3') and rng.random() < 0.15
    if manhattan:
        # a Manhattan world: every heading is EXACTLY axis-aligned (angle exactly 0.0 / quarter turns; identity or axis-aligned quaternions), the
        # sensors are mounted without rotation, only the positions of the initial guess are off
        if kind == 'SE2':
            truth = [PoseSE2([rng.gauss(0, 3.0), rng.gauss(0, 3.0)], rng.choice([0.0, 0.0, math.pi / 2, -math.pi / 2, math.pi])) for _ in range(nv)]
            verts = [Vertex(i, PoseSE2([float(truth[i][0]) + rng.gauss(0, pert), float(truth[i][1]) + rng.gauss(0, pert)], float(truth[i][2]))) for i in range(nv)]
        else:
            h_ = math.sqrt(0.5)
            qs = [[0.0, 0.0, 0.0, 1.0], [0.0, 0.0, 0.0, 1.0], [0.0, 0.0, h_, h_], [h_, 0.0, 0.0, h_], [0.0, 1.0, 0.0, 0.0]]
            truth = [PoseSE3([rng.gauss(0, 3.0) for _ in range(3)], rng.choice(qs)) for _ in range(nv)]
            verts = [Vertex(i, PoseSE3([float(x) + rng.gauss(0, pert) for x in np.asarray(truth[i])[:3]], [float(x) for x in np.asarray(truth[i])[3:]])) for i in range(nv)]
    edges = []

    def info(n):
        if info_cross:
            return rand_spd(rng, n, cond=100.0)
        return np.eye(n)
    pairs = [(i, i + 1) for i in range(nv - 1)] + [(0, nv - 1)] + [tuple(sorted(rng.sample(range(nv), 2))) for _ in range(rng.randint(0, 2))]
    if rng.random() < 0.6:      # the same pair measured from both ends (anti-parallel multi-edge), and a plain duplicate
        a, b = pairs[rng.randrange(len(pairs))]
        pairs.append((b, a))
        if rng.random() < 0.5:
            pairs.append((a, b))
    for (a, b) in pairs:
        z = truth[b] - truth[a]
        if noise:
            z = z + small()
        edges.append(EdgeOdometry([a, b], info(d), z))
    lms = []
    if landmarks:
        for j in range(rng.randint(0, 3)):
            lp = PP([rng.gauss(0, 4) for _ in range(ce.DIM[pk])])
            lid = nv + j
            lms.append(lp)
            verts.append(Vertex(lid, PP(np.asarray(lp) + (np.array([rng.gauss(0, pert) for _ in range(ce.DIM[pk])]) if pert else 0.0))))
            for a in rng.sample(range(nv), min(nv, rng.randint(2, 3))):
                if manhattan:
                    off = PoseSE2.identity() if kind == 'SE2' else PoseSE3.identity()
                elif kind == 'SE2':
                    off = PoseSE2.identity()   # EDGE_SE2_XY semantics; any offset is allowed for the in-memory graph
                    off = PoseSE2([rng.gauss(0, .3), rng.gauss(0, .3)], rng.uniform(-1, 1))
                elif kind == 'SE3':
                    off = PoseSE3([rng.gauss(0, .3) for _ in range(3)], rand_unit_quat(rng))
                else:
                    off = P([rng.gauss(0, .3) for _ in range(d)])
                if not manhattan and kind in ('SE2', 'SE3') and rng.random() < 0.25:
                    # a sensor mounted AT the body origin but looking sideways (translation exactly zero, rotation not the identity), or mounted on a
                    # lever arm without rotation
                    if rng.random() < 0.7:
                        off = PoseSE2([0.0, 0.0], rng.choice([math.pi / 2, -math.pi / 2, rng.uniform(-3, 3)])) if kind == 'SE2' \
                            else PoseSE3([0.0, 0.0, 0.0], rand_unit_quat(rng))
                    else:
                        off = PoseSE2([rng.gauss(0, .3), rng.gauss(0, .3)], 0.0) if kind == 'SE2' else PoseSE3([rng.gauss(0, .3) for _ in range(3)], [0.0, 0.0, 0.0, 1.0])
                z = ((truth[a] + off).inverse + lp)
                if noise:
                    z = PP(np.asarray(z) + np.array([rng.gauss(0, noise) for _ in range(ce.DIM[pk])]))
                # offset_id is only a label for the .g2o export: an in-memory edge may carry an offset without one
                edges.append(EdgeLandmark([a, lid], info(ce.DIM[pk]), z, offset=off, offset_id=(j if rng.random() < 0.5 else None)))
    prebind(rng, edges, verts)
    return Graph(edges, verts), truth + lms


def transform_graph(g, T, kind):
    """left-compose every pose vertex with T; landmark points get the action of T"""
    from graphslam.graph import Graph
    from graphslam.vertex import Vertex
    g2 = copy.deepcopy(g)
    for v in g2._vertices:
        if kind in ('R2', 'R3'):
            v.pose = type(v.pose)(np.asarray(T) + np.asarray(v.pose))
        else:
            v.pose = T + v.pose
    return Graph(g2._edges, g2._vertices)


def frame_independence(seed, n):
    from graphslam.pose.se2 import PoseSE2
    from graphslam.pose.se3 import PoseSE3
    from graphslam.pose.r2 import PoseR2
    from graphslam.pose.r3 import PoseR3
    rng = random.Random(seed)
    fails, evals = [], 0
    # the first four cases of every run are the landmark-initialisation scenarios (below), so that they do not depend on the draw
    forced_cases = [('SE2', 'origin'), ('SE3', 'origin'), ('SE2', 'far'), ('SE3', 'far'), ('SE2', 'bigT'), ('SE3', 'bigT')]
    for i in range(n):
        forced = forced_cases[i] if i < len(forced_cases) else None
        kind = forced[0] if forced else rng.choice(['SE2', 'SE3', 'SE3', 'R2', 'R3'])
        g, _ = build_graph(rng, kind)
        for _try in range(20):
            if not forced or any(type(v.pose).__name__ in ('PoseR2', 'PoseR3') for v in g._vertices):
                break
            g, _ = build_graph(rng, kind)
        big = (rng.random() < 0.3 and not forced) or bool(forced and forced[1] == 'bigT')
        sc = (1e4 if (rng.random() < 0.5 and not forced) else 10.0 ** rng.uniform(6 if forced else 5, 7)) if big else 5.0        # up to UTM-sized coordinates
        if kind == 'SE2':
            T = PoseSE2([rng.gauss(0, sc), rng.gauss(0, sc)], rng.choice([rng.uniform(-math.pi, math.pi), math.pi - 1e-4, -math.pi + 1e-4]))
        elif kind == 'SE3':
            T = PoseSE3([rng.gauss(0, sc) for _ in range(3)], rand_unit_quat(rng, near180=rng.random() < 0.3))
        else:
            T = np.array([rng.gauss(0, sc) for _ in range(ce.DIM[kind])])
        far_lm = False
        lm_mode = (forced[1] if forced[1] != 'bigT' else None) if forced else (rng.choice(['origin', 'far']) if (kind in ('SE2', 'SE3') and rng.random() < 0.2) else None)
        if lm_mode == 'origin':
            # landmarks without an initial guess are commonly created AT THE ORIGIN (exactly zero): a legitimate start like any other
            for v in g._vertices:
                if type(v.pose).__name__ in ('PoseR2', 'PoseR3'):
                    v.pose = type(v.pose)([0.0] * len(np.asarray(v.pose)))
        if lm_mode == 'far':
            # the survey is ~5 km from the origin and every landmark starts at the origin: the first update of a landmark is thousands of units long
            lm_ = [v for v in g._vertices if type(v.pose).__name__ in ('PoseR2', 'PoseR3')]
            if lm_:
                if kind == 'SE2':
                    T0 = PoseSE2([rng.uniform(3e3, 6e3), rng.uniform(-6e3, 6e3)], rng.uniform(-3, 3))
                else:
                    T0 = PoseSE3([rng.uniform(3e3, 6e3), rng.uniform(-6e3, 6e3), rng.uniform(-500, 500)], rand_unit_quat(rng))
                g = transform_graph(g, T0, kind)
                for v in g._vertices:
                    if type(v.pose).__name__ in ('PoseR2', 'PoseR3'):
                        v.pose = type(v.pose)([0.0] * len(np.asarray(v.pose)))
                sc = max(sc, 6e3)
                far_lm = True
        if rng.random() < 0.2:
            # every landmark (else every pose) of the ORIGINAL graph starts from one shared pose object; the transformed graph gets its own objects
            grp = [v for v in g._vertices if type(v.pose) is type(g._vertices[-1].pose)]
            if len(grp) >= 2:
                sh_ = grp[0].pose.copy()
                for v in grp:
                    v.pose = sh_
        g2 = transform_graph(g, T, kind)
        evals += 1
        c1, c2 = g.calc_chi2(), g2.calc_chi2()
        tol = 1e-7 * (1 + abs(c1)) * (max(1e4, sc) if big else 1.0)
        if not abs(c1 - c2) <= tol:
            fails.append({'law': 'chi2 changes under a left transform', 'kind': kind, 'seed': seed, 'case': i, 'chi2': c1, 'chi2_T': c2, 'edge': 'graph'})
            continue
        iters = rng.randint(1, 5)
        try:
            r1 = g.optimize(tol=0.0, max_iter=iters, verbose=False)
            r2 = g2.optimize(tol=0.0, max_iter=iters, verbose=False)
        except Exception as ex:  # noqa
            fails.append({'law': 'optimize raised %r' % (ex,), 'kind': kind, 'seed': seed, 'case': i, 'edge': 'graph'})
            continue
        # "iteration by iteration": with tol = 0 both runs perform exactly the same number of updates, wherever the world origin is
        n1, n2 = len(r1.iteration_results), len(r2.iteration_results)
        if (n1, r1.num_iterations, bool(r1.converged)) != (n2, r2.num_iterations, bool(r2.converged)) and np.isfinite(g.calc_chi2()) and np.isfinite(g2.calc_chi2()):
            fails.append({'law': 'the transformed graph ran %s iterations (converged=%s), the original %s (converged=%s) with tol=0, max_iter=%d: the stopping '
                                 'behaviour depends on the world frame' % (r2.num_iterations, r2.converged, r1.num_iterations, r1.converged, iters),
                          'kind': kind, 'seed': seed, 'case': i, 'T': [float(x) for x in np.asarray(T)], 'edge': 'graph'})
            continue
        if not np.isfinite(g.calc_chi2()) or g.calc_chi2() > 1e6 * (1 + c1):
            continue   # diverged: nothing to compare
        for v1, v2 in zip(g._vertices, g2._vertices):
            if kind in ('R2', 'R3'):
                exp = np.asarray(T) + np.asarray(v1.pose)
            else:
                exp = np.asarray(T + v1.pose)
            got = np.asarray(v2.pose)
            if len(exp) == 7:   # compare as rotations: q and -q are the same pose
                if np.dot(exp[3:], got[3:]) < 0:
                    got = np.concatenate([got[:3], -got[3:]])
            # positions carry an absolute rounding error of a few ulp of |T| per operation; everything else is O(1)
            # R^n graphs: nothing rotates, the only error is a few ulp of |T|;  SE(n): an angular rounding error of 1e-9 rad acts on a lever arm |T|
            at = (1e-9 * (1 + min(sc, 10.0)) + 1e4 * 2.0 ** -52 * sc) if kind in ('R2', 'R3') else 1e-5 * (1 + sc)
            if far_lm:
                at = 1e-3 * (1 + sc)      # residuals of thousands of units make the first steps violently non-linear: rounding is amplified a lot
            if len(exp) == 3 and kind == 'SE2' and len(got) == 3:
                dth = math.remainder(exp[2] - got[2], 2 * math.pi)
                ok = np.allclose(exp[:2], got[:2], rtol=0, atol=at) and abs(dth) < (1e-4 if far_lm else 1e-6)   # far scenario: headings see the same amplified rounding as the positions they are solved with
            else:
                ok = np.allclose(exp, got, rtol=0, atol=at)
            if not ok:
                fails.append({'law': 'trajectory does not commute with the left transform after %d iterations' % iters, 'kind': kind, 'seed': seed, 'case': i,
                              'expected': exp.tolist(), 'got': got.tolist(), 'edge': 'graph'})
                break
    return evals, fails
