"""oracle_edges.py -- direct oracles on the implementation for the edge-level properties (C01, C02, C07, C08)."""
import copy
import math
import random

import numpy as np

import corr_poses as cp
import corr_edges as ce
from corr_edges import DIM


def edge_names():
    return ['odo_R2', 'odo_R3', 'odo_SE2', 'odo_SE3', 'lmk_SE2_R2', 'lmk_SE3_R3', 'lmk_R2_R2', 'lmk_R3_R3']


def kinds_of(name):
    parts = name.split('_')
    return [parts[1]] * 3 + [None] if parts[0] == 'odo' else [parts[1], parts[2], parts[2], parts[1]]


def gen_case(rng, name, fl):
    ks = kinds_of(name)
    vals = [ce.gen_vals(rng, k, fl) if k else None for k in ks]
    # keep SE(2) angles away from the wrap in the oracle (the property excludes the wrapping error angle)
    return vals


def num_jacobians(e, h=1e-6):
    """central differences of calc_error through pose + delta (the boxplus of the code)"""
    out = []
    for k, v in enumerate(e.vertices):
        dim = v.pose.COMPACT_DIMENSIONALITY
        p0 = v.pose.copy()
        J = None
        for d in range(dim):
            dp = np.zeros(dim); dp[d] = h
            v.pose = p0 + dp
            ep = np.asarray(e.calc_error(), dtype=np.float64).copy()
            v.pose = p0 + (-dp)
            em = np.asarray(e.calc_error(), dtype=np.float64).copy()
            v.pose = p0.copy()
            col = (ep - em) / (2 * h)
            if J is None:
                J = np.zeros((len(col), dim))
            J[:, d] = col
        out.append(J)
    return out


def near_wrap(e, name):
    if 'SE2' not in name:
        return False
    angs = []
    try:
        if name.startswith('odo'):
            d = e.vertices[1].pose - e.vertices[0].pose
            angs = [d[2], (e.estimate - d)[2], e.vertices[0].pose[2], e.vertices[1].pose[2]]
        else:
            q = e.vertices[0].pose + e.offset
            angs = [q[2], q.inverse[2], e.vertices[0].pose[2]]
    except Exception:  # noqa
        return False
    return any(abs(abs(float(a)) - math.pi) < 0.02 for a in angs)


def check_edge_jacobians(seed, n_per):
    rng = random.Random(seed)
    fails, evals = [], 0
    for name in edge_names():
        for i in range(n_per):
            fl = 'typical' if rng.random() < 0.6 else 'adversarial'
            vals = gen_case(rng, name, fl)
            try:
                e, kinds = ce.build(name, vals)
                if near_wrap(e, name):
                    continue
                Ja = [np.asarray(J, dtype=np.float64) for J in e.calc_jacobians()]
                Jn = num_jacobians(e)
                evals += 1
                for k, (a, b) in enumerate(zip(Ja, Jn)):
                    if a.shape != b.shape:
                        fails.append({'edge': name, 'vals': vals, 'vertex': k, 'why': 'shape %s vs %s' % (a.shape, b.shape)})
                        break
                    scale = 1.0 + np.abs(a).max() + np.abs(b).max()
                    err = np.abs(a - b).max()
                    if not err <= 5e-5 * scale:
                        fails.append({'edge': name, 'vals': vals, 'vertex': k, 'why': 'max |J - numeric| = %g (scale %g)' % (err, scale),
                                      'analytic': a.tolist(), 'numeric': b.tolist()})
                        break
            except Exception as ex:  # noqa
                fails.append({'edge': name, 'vals': vals, 'why': 'raised %r' % (ex,)})
    return evals, fails
