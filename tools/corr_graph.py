"""corr_graph.py -- correspondence 4.2: the assembly / update bookkeeping of graph.py against
lib/GraphModel.v on exact integer instances.

Graphs are built from a test-only BaseEdge subclass that returns prescribed small-integer error
vectors, Jacobians and information matrices (every float operation is then exact), over vertices of
mixed dimensionality (PoseR2 2, PoseR3 / PoseSE2 3, PoseSE3 6), with random / negative / huge /
duplicate ids, a shuffled vertex list, slots listed in any order, parallel edges and any pattern of fixed
vertices.  `graphslam.graph.spsolve` is wrapped from here (no change to the repository): the wrapper
records the Hessian and right-hand side that optimize() hands to the solver and returns a prescribed
integer increment, so that the update step is checked exactly and singular systems are no obstacle."""
import copy
import json
import math
import os
import random
import sys

import numpy as np

import vlib

sys.path.insert(0, vlib.REPO)
import graphslam.graph as gmod  # noqa: E402
from graphslam.graph import Graph  # noqa: E402
from graphslam.vertex import Vertex  # noqa: E402
from graphslam.edge.base_edge import BaseEdge  # noqa: E402
from graphslam.edge.edge_odometry import EdgeOdometry  # noqa: E402
from graphslam.pose.r2 import PoseR2  # noqa: E402
from graphslam.pose.r3 import PoseR3  # noqa: E402
from graphslam.pose.se2 import PoseSE2  # noqa: E402
from graphslam.pose.se3 import PoseSE3  # noqa: E402


class ScriptedEdge(BaseEdge):
    """error, Jacobians prescribed by the harness"""

    def __init__(self, vertex_ids, information, err, jacs):
        super().__init__(vertex_ids, information, None)
        self._err = np.array(err, dtype=np.float64)
        self._jacs = [np.array(j, dtype=np.float64) for j in jacs]

    def is_valid(self):
        return self._is_valid()

    def calc_error(self):
        return self._err.copy()

    def calc_jacobians(self):
        return [j.copy() for j in self._jacs]


def make_pose(rng, kind):
    if kind == 'R2':
        return PoseR2([float(rng.randint(-5, 5)), float(rng.randint(-5, 5))])
    if kind == 'R3':
        return PoseR3([float(rng.randint(-5, 5)) for _ in range(3)])
    if kind == 'SE2':
        return PoseSE2([float(rng.randint(-5, 5)), float(rng.randint(-5, 5))], rng.uniform(-3, 3))
    q = [rng.gauss(0, 1) for _ in range(4)]
    n = math.sqrt(sum(x * x for x in q))
    return PoseSE3([float(rng.randint(-5, 5)) for _ in range(3)], [x / n for x in q])


DIMS = {'R2': 2, 'R3': 3, 'SE2': 3, 'SE3': 6}


def gen_id(rng, used):
    while True:
        c = rng.random()
        if c < 0.5:
            i = rng.randint(0, 40)
        elif c < 0.7:
            i = -rng.randint(1, 1000)
        elif c < 0.9:
            i = rng.randint(10 ** 6, 2 ** 62)
        else:
            i = rng.randint(-3, 3)
        if i not in used:
            return i


def gen_graph(rng, flavour=None):
    """-> dict(kinds, ids, fixed, edges=[(vertex_ids, err, om, jacs)], ffp)"""
    nv = rng.randint(1, 8) if rng.random() < 0.8 else rng.randint(9, 12)
    kinds = [rng.choice(['R2', 'R3', 'SE2', 'SE3']) if rng.random() < 0.85 else rng.choice(['R2', 'R3']) for _ in range(nv)]
    ids = []
    for _ in range(nv):
        ids.append(gen_id(rng, set(ids)))
    dup = rng.random() < 0.07 and nv >= 2
    if dup:   # duplicate id: Graph binds edges to the LAST vertex carrying it
        a, b = rng.sample(range(nv), 2)
        ids[b] = ids[a]
        kinds[b] = kinds[a]      # same dimension, so that the scripted Jacobians fit whichever vertex gets bound
    pat = rng.choice(['none', 'one', 'several', 'all', 'random'])
    fixed = [False] * nv
    if pat == 'one':
        fixed[rng.randrange(nv)] = True
    elif pat == 'several':
        for k in rng.sample(range(nv), max(1, nv // 2)):
            fixed[k] = True
    elif pat == 'all':
        fixed = [True] * nv
    elif pat == 'random':
        fixed = [rng.random() < 0.3 for _ in range(nv)]
    ne = rng.randint(0, 10) if rng.random() < 0.8 else rng.randint(11, 30)
    edges = []
    for _ in range(ne):
        ns = rng.choice([1, 2, 2, 2, 3]) if nv >= 3 else rng.choice([1, 2]) if nv >= 2 else 1
        slots = rng.sample(range(nv), ns)      # distinct positions, any order (high index first half of the time)
        m = rng.randint(1, 4)
        err = [rng.randint(-3, 3) for _ in range(m)]
        A = [[rng.randint(-2, 2) for _ in range(m)] for _ in range(m)]
        om = [[sum(A[k][i] * A[k][j] for k in range(m)) + (1 if i == j else 0) for j in range(m)] for i in range(m)]   # SPD, cross terms
        jacs = [[[rng.randint(-3, 3) for _ in range(DIMS[kinds[s]])] for _ in range(m)] for s in slots]
        edges.append(([ids[s] for s in slots], err, om, jacs))
    if rng.random() < 0.15 and edges:   # parallel edge: same vertices again
        e = edges[rng.randrange(len(edges))]
        edges.append((list(e[0]), [rng.randint(-3, 3) for _ in e[1]], e[2], e[3]))
    if rng.random() < 0.05:             # unknown id -> KeyError
        edges.append(([gen_id(rng, set(ids))], [1], [[1]], [[[1, 0]]]))
    case = {'kinds': kinds, 'ids': ids, 'fixed': fixed, 'edges': edges, 'ffp': rng.random() < 0.5,
            'dx_seed': rng.randrange(10 ** 9)}
    if rng.random() < 0.3:
        # every information matrix multiplied by a power of two (exact in doubles): the assembled system is the model's integer system
        # times that power -- tiny and huge information must not change the bookkeeping
        case['scale_pow'] = rng.choice([-60, -40, -30, 30, 50])
    if rng.random() < 0.45:
        # SEQUENCE on one Graph object: 2-3 optimizer calls, a fixed vertex possibly RELEASED in between, and some REAL
        # EdgeOdometry objects between R^n vertices (integer data: err = p2 - p1 - z, J = [-I, I]), placed anywhere in the edge list
        case['steps'] = rng.choice([2, 2, 3])
        case['release'] = rng.random() < 0.6
        case['fix_later'] = rng.random() < 0.4       # a vertex that was free in an earlier call is fixed before a later one
        case['ffp2'] = rng.random() < 0.25
        real = {}
        pairs = [(a, b) for a in range(nv) for b in range(nv) if a != b and kinds[a] == kinds[b] and kinds[a] in ('R2', 'R3')
                 and ids.count(ids[a]) == 1 and ids.count(ids[b]) == 1]
        for _ in range(rng.randint(1, 3) if pairs else 0):
            a, b = rng.choice(pairs)
            m = DIMS[kinds[a]]
            A = [[rng.randint(-2, 2) for _ in range(m)] for _ in range(m)]
            om = [[sum(A[k][i] * A[k][j] for k in range(m)) + (1 if i == j else 0) for j in range(m)] for i in range(m)]
            z = [rng.randint(-4, 4) for _ in range(m)]
            eye = [[1 if i == j else 0 for j in range(m)] for i in range(m)]
            neg = [[-x for x in r] for r in eye]
            pos = rng.randint(0, len(edges))
            real = {(k + 1 if k >= pos else k): v for k, v in real.items()}
            edges.insert(pos, ([ids[a], ids[b]], [0] * m, om, [neg, eye]))    # err is filled in per step from the current poses
            real[pos] = {'z': z, 'a': a, 'b': b}
        case['real'] = {str(k): v for k, v in real.items()}
    return case


def run_impl(case):
    """-> list of (effective case of the step, dict(status, N, grad, hess, slots, moved_ok, detail, ...)), one per optimizer call"""
    rng = random.Random(case['dx_seed'])
    def mkv(i, k, f):
        # the fixed flag as callers write it: keyword or third POSITIONAL argument; True, numpy.bool_ or 1
        fl = rng.choice([True, np.bool_(True), 1]) if f else rng.choice([False, np.bool_(False), 0])
        return Vertex(i, make_pose(rng, k), fl) if rng.random() < 0.5 else Vertex(i, make_pose(rng, k), fixed=fl)
    vs = [mkv(i, k, f) for i, k, f in zip(case['ids'], case['kinds'], case['fixed'])]
    real = {int(k): v for k, v in case.get('real', {}).items()}
    sc = 2.0 ** case.get('scale_pow', 0)
    es = []
    for j, (vids, err, om, jacs) in enumerate(case['edges']):
        if j in real:
            cls = PoseR2 if len(real[j]['z']) == 2 else PoseR3
            es.append(EdgeOdometry(list(vids), np.array(om, dtype=np.float64) * sc, cls([float(x) for x in real[j]['z']])))
        else:
            es.append(ScriptedEdge(list(vids), np.array(om, dtype=np.float64) * sc, err, jacs))
    if rng.random() < 0.3:
        # the same edge objects were used before in ANOTHER graph over different Vertex objects carrying the same ids:
        # construction must re-bind every edge to the vertices of THIS graph
        try:
            Graph(es, [Vertex(v.id, v.pose.copy(), fixed=v.fixed) for v in vs])
        except Exception:  # noqa
            pass
    try:
        g = Graph(es, vs)
    except KeyError:
        return [(case, {'status': 5})]
    except AssertionError:
        return [(case, {'status': 4})]
    N = sum(DIMS[k] for k in case['kinds'])
    out = []
    intended = [bool(f) for f in case['fixed']]        # the flags the CALLER set (the model is run with these, never with what the library reports)
    for st in range(case.get('steps', 1)):
        if st > 0 and case.get('release'):
            held = [k for k, f in enumerate(intended) if f]
            if held:
                k_ = rng.choice(held)
                vs[k_].fixed = False      # a vertex held in the earlier pass is released
                intended[k_] = False
        if st > 0 and case.get('fix_later'):
            free_now = [k for k, f in enumerate(intended) if not f]
            if free_now:
                k_ = rng.choice(free_now)
                vs[k_].fixed = True
                intended[k_] = True
        ffp = case['ffp'] if st == 0 else case.get('ffp2', False)
        if ffp:
            intended[0] = True          # fix_first_pose: the first vertex of the list, from now on
        eff = []
        for j, (vids, err, om, jacs) in enumerate(case['edges']):
            if j in real:
                pa, pb = np.array(vs[real[j]['a']].pose), np.array(vs[real[j]['b']].pose)
                err = [int(x) for x in (pb - pa - np.array(real[j]['z'], dtype=np.float64))]
            eff.append((vids, err, om, jacs))
        ecase = dict(case, fixed=list(intended), ffp=ffp, edges=eff)
        dx = np.array([float(rng.randint(-2, 2)) for _ in range(N)])
        rec = {}

        def fake_spsolve(A, b):
            # recorded with the power-of-two scale of the information removed (exact); identity blocks of fixed vertices are not scaled
            A = np.array(A.toarray(), dtype=np.float64)
            fx = np.zeros(len(A), dtype=bool)
            off_ = 0
            for k_, v_ in enumerate(vs):
                d_ = DIMS[case['kinds'][k_]]
                if intended[k_]:
                    fx[off_:off_ + d_] = True
                off_ += d_
            free = ~fx
            A[np.ix_(free, free)] = A[np.ix_(free, free)] / sc
            rec['A'] = A
            rec['b'] = np.array(b, dtype=np.float64) / sc
            return dx.copy()
        before = [v.pose.copy() for v in vs]
        before_arr = [np.array(v.pose) for v in vs]
        orig = gmod.spsolve
        gmod.spsolve = fake_spsolve
        raised = None
        try:
            g.optimize(tol=0.0, max_iter=1, fix_first_pose=ffp, verbose=False)
        except Exception as ex:  # noqa   (the model never fails on a graph that was constructed)
            raised = ex
        finally:
            gmod.spsolve = orig
        if raised is not None:
            out.append((ecase, {'status': 9, 'detail': 'optimize() raised %r on a graph that was constructed (optimizer call %d)' % (raised, st)}))
            break
        fixed_after = list(intended)
        flags_now = [bool(v.fixed) for v in vs]
        # expected motion: pose [+] dx-slice for the non-fixed vertices, bitwise; fixed vertices untouched
        off = 0
        moved_ok = True
        detail = ''
        for k, v in enumerate(vs):
            d = DIMS[case['kinds'][k]]
            if fixed_after[k]:
                exp = before_arr[k]
            else:
                exp = np.array(before[k] + dx[off:off + d])
            if not (np.array(v.pose).tobytes() == exp.tobytes() or np.array_equal(np.array(v.pose), exp)):
                moved_ok = False
                detail = 'vertex position %d (fixed=%s): pose %s, expected %s' % (k, fixed_after[k], np.array(v.pose).tolist(), exp.tolist())
            off += d
        # chi2 the graph reports after the call = chi2 of the state AFTER the update (real edges: error recomputed from the moved poses)
        chi2_after = 0
        for j, (vids, err, om, jacs) in enumerate(eff):
            if j in real:
                pa, pb = np.array(vs[real[j]['a']].pose), np.array(vs[real[j]['b']].pose)
                err = [int(x) for x in (pb - pa - np.array(real[j]['z'], dtype=np.float64))]
            chi2_after += sum(err[i] * om[i][k] * err[k] for i in range(len(err)) for k in range(len(err)))
        if flags_now != intended:
            moved_ok = False
            detail = 'fixed flags after the call are %s, the caller set %s (fix_first_pose=%s)' % (flags_now, intended, ffp)
        if 'A' not in rec:
            out.append((ecase, {'status': 9, 'detail': 'spsolve was not called (optimizer call %d)' % st}))
            break
        out.append((ecase, {'status': 0, 'chi2': rec.get('chi2', None), 'N': N, 'grad': (-rec['b']).tolist(), 'hess': rec['A'].tolist(),
                            'fixed_after': fixed_after, 'step': st, 'chi2_after': chi2_after, 'has_real': bool(real),
                            'slots': [[next((k for k, w in enumerate(vs) if w is v), -1) for v in e.vertices] for e in es],
                            'moved_ok': moved_ok, 'detail': detail,
                            'graph_chi2': float(g._chi2) / sc if g._chi2 is not None else None}))
    return out


def zl(l):
    return '[' + '; '.join('(%d)' % int(x) for x in l) + ']'


def case_coq(case, fixed_after):
    vs = '[' + '; '.join('mkvertex %d %s' % (DIMS[k], 'true' if f else 'false') for k, f in zip(case['kinds'], fixed_after)) + ']'
    es = []
    for (vids, err, om, jacs) in case['edges']:
        es.append('(%s, %s, [%s], [%s])' % (zl(vids), zl(err), '; '.join(zl(r) for r in om),
                                            '; '.join('[' + '; '.join(zl(r) for r in j) + ']' for j in jacs)))
    return 'run_case %s %s [%s]' % (zl(case['ids']), vs, ';\n    '.join(es))


def run(seed, n_cases, corpus=None):
    rng = random.Random(seed)
    cases = [gen_graph(rng) for _ in range(n_cases)]
    if corpus:
        cases = list(corpus) + cases
    pairs = [p for c in cases for p in run_impl(c)]      # one (effective case, observation) per optimizer call
    n_seq = sum(1 for c in cases if c.get('steps', 1) > 1)
    n_real = sum(1 for c in cases if c.get('real'))
    cases = [p[0] for p in pairs]
    impl = [p[1] for p in pairs]
    okm, logm = vlib.make(['lib/GraphZ.vo'])
    res = {'evaluations': 0, 'agree': 0, 'disagreements': [], 'coq_errors': [],
           'stats': {'vertices': {}, 'edges': {}, 'fixed_patterns': {}, 'keyerror': 0, 'duplicate_ids': 0, 'mixed_dims': 0,
                     'sequences': n_seq, 'with_real_Rn_odometry_edges': n_real, 'scaled_information': sum(1 for c in cases if c.get('scale_pow')), 'later_calls': sum(1 for im in impl if im.get('step', 0) > 0)}}
    if not okm:
        res['coq_errors'].append({'file': 'make lib/GraphZ.vo', 'out': logm[-1500:]})
        return res
    CH = 40
    srcs = []
    for ci in range(0, len(cases), CH):
        lines = ['From Coq Require Import List ZArith.', 'From GS Require Import GraphModel GraphZ.', 'Import ListNotations.', 'Open Scope Z_scope.',
                 'Definition results : list (list Z) := [']
        items = []
        for c, im in zip(cases[ci:ci + CH], impl[ci:ci + CH]):
            fa = im.get('fixed_after', [f or (c['ffp'] and k == 0) for k, f in enumerate(c['fixed'])])
            items.append('  ' + case_coq(c, fa))
        lines.append(';\n'.join(items) + '].')
        lines.append('Eval vm_compute in concat results.')
        srcs.append(('graph_%04d' % (ci // CH), '\n'.join(lines) + '\n'))
    outs = vlib.coq_eval_files(srcs, timeout=900)
    for ci, (nm, _) in enumerate(srcs):
        rc, out = outs[nm]
        chunk = list(zip(cases[ci * CH:(ci + 1) * CH], impl[ci * CH:(ci + 1) * CH]))
        if rc != 0:
            res['coq_errors'].append({'file': nm, 'rc': rc, 'out': out[-1500:]})
            continue
        parts = vlib.split_magic(vlib.parse_ints(out))
        if len(parts) != len(chunk):
            res['coq_errors'].append({'file': nm, 'out': 'expected %d results, got %d' % (len(chunk), len(parts))})
            continue
        for (c, im), ints in zip(chunk, parts):
            res['evaluations'] += 1
            st = res['stats']
            st['vertices'][len(c['ids'])] = st['vertices'].get(len(c['ids']), 0) + 1
            st['edges'][len(c['edges'])] = st['edges'].get(len(c['edges']), 0) + 1
            if len(set(c['ids'])) < len(c['ids']):
                st['duplicate_ids'] += 1
            if len(set(DIMS[k] for k in c['kinds'])) > 1:
                st['mixed_dims'] += 1
            why = None
            if ints[0] == 5 or im['status'] == 5:
                st['keyerror'] += 1
                if not (ints[0] == 5 and im['status'] == 5):
                    why = 'KeyError: model %s, implementation status %s' % (ints[0], im['status'])
            elif im['status'] != 0:
                why = 'implementation status %s %s' % (im['status'], im.get('detail', ''))
            else:
                chi2, N = ints[1], ints[2]
                grad = ints[3:3 + N]
                hess = ints[3 + N:3 + N + N * N]
                rest = ints[3 + N + N * N:]
                ne = rest[0]
                slots = []
                p = 1
                for _ in range(ne):
                    k = rest[p]
                    slots.append(rest[p + 1:p + 1 + k])
                    p += 1 + k
                if N != im['N']:
                    why = 'length of gradient: model %d impl %d' % (N, im['N'])
                elif slots != im['slots']:
                    why = 'edge binding: model %s impl %s' % (slots, im['slots'])
                elif [float(x) for x in grad] != im['grad']:
                    why = 'gradient: model %s impl %s' % (grad, im['grad'])
                elif [float(x) for x in hess] != [x for r in im['hess'] for x in r]:
                    H = np.array(hess, dtype=float).reshape(N, N)
                    bad = np.argwhere(H != np.array(im['hess']))
                    why = 'Hessian differs at %s: model %s impl %s' % (bad[:3].tolist(), [H[tuple(b)] for b in bad[:3]], [im['hess'][b[0]][b[1]] for b in bad[:3]])
                elif im['graph_chi2'] is not None and not im.get('has_real') and float(chi2) != im['graph_chi2']:
                    why = 'chi2: model %d impl %r' % (chi2, im['graph_chi2'])
                elif im['graph_chi2'] is not None and float(im.get('chi2_after', im['graph_chi2'])) != im['graph_chi2']:
                    why = 'chi2 after the call: expected %r impl %r' % (im.get('chi2_after'), im['graph_chi2'])
                elif not im['moved_ok']:
                    why = 'update step: ' + im['detail']
            if why is None:
                res['agree'] += 1
            else:
                res['disagreements'].append({'case': c, 'why': why})
    return res


if __name__ == '__main__':
    r = run(int(os.environ.get('VERIF_SEED', '1')), int(sys.argv[1]) if len(sys.argv) > 1 else 40)
    r['disagreements'] = r['disagreements'][:3]
    print(json.dumps(r, indent=1, default=str)[:5000])
