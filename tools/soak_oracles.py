#!/usr/bin/env python3
"""soak_oracles.py [first_seed] [n_seeds] -- developer tool: run every direct oracle on the UNCHANGED tree under many seeds, with the
case counts the search mode uses; any failure printed here is a false alarm waiting to happen (or a genuine finding) and must be looked at."""
import sys
import os
import multiprocessing
sys.path.insert(0, os.path.dirname(os.path.abspath(__file__)))


def task(a):
    mod, fn, seed, n = a
    m = __import__(mod)
    try:
        r = getattr(m, fn)(seed, n)
        ev, fails = (r[0], r[2]) if len(r) == 4 else r
    except Exception as ex:  # noqa
        return (mod, fn, seed, -1, ['EXC %r' % (ex,)])
    return (mod, fn, seed, ev, [str({k: v for k, v in f.items() if k not in ('analytic', 'numeric')})[:400] for f in fails
                                if not f.get('finding_key')][:3])


ORACLES = [('oracle_poses', 'check_jacobians', 60), ('oracle_poses', 'group_laws', 60), ('oracle_poses', 'manifold_invariants', 40),
           ('oracle_edges', 'check_edge_jacobians', 40), ('oracle_edges', 'measurement_model', 40), ('oracle_edges', 'frame_independence', 60),
           ('oracle_graph', 'gauss_newton_step', 100), ('oracle_graph', 'fixed_vertices', 100), ('oracle_graph', 'representation_independence', 100),
           ('oracle_graph', 'linear_optimum', 100), ('oracle_graph', 'purity', 60), ('oracle_graph', 'local_convergence', 100),
           ('oracle_graph', 'stale_cache_sequences', 60), ('oracle_fd', 'fd_accuracy', 100), ('oracle_fd', 'paired_optimisations', 20), ('oracle_fd', 'handwritten_edges', 150)]

if __name__ == '__main__':
    s0 = int(sys.argv[1]) if len(sys.argv) > 1 else 1
    ns = int(sys.argv[2]) if len(sys.argv) > 2 else 8
    only = sys.argv[3] if len(sys.argv) > 3 else None
    tasks = [(m, f, s, n) for (m, f, n) in ORACLES for s in range(s0, s0 + ns) if only is None or only in f]
    with multiprocessing.get_context('fork').Pool(12) as pool:
        bad = 0
        for mod, fn, seed, ev, fails in pool.imap_unordered(task, tasks):
            if fails:
                bad += 1
                print('FAIL %s.%s seed=%d evals=%d' % (mod, fn, seed, ev))
                for f in fails:
                    print('     ', f)
                sys.stdout.flush()
        print('done: %d oracle runs, %d with failures' % (len(tasks), bad))
