#!/usr/bin/env python3
"""mk.py target.vo ... -- developer helper: locked make of coq targets (paths relative to coq/)."""
import sys, os
sys.path.insert(0, os.path.dirname(os.path.abspath(__file__)))
import vlib
vlib.regen()
import os as _os
ok, log = vlib.make(sys.argv[1:], timeout=int(_os.environ.get('MK_TIMEOUT', '300')))
lines = [l for l in log.splitlines() if not any(w in l for w in ('ambiguous-paths', 'Warning:', 'New coercion', 'COQDEP', 'Finite] : Rbar'))]
print('\n'.join(lines[-60:]))
print('OK' if ok else 'FAILED')
