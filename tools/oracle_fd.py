"""oracle_fd.py -- direct oracles (TESTS, labelled as such in the evidence) for property C16 on the real code:

 (a) fd_accuracy: the numerically differentiated Jacobians returned by the REAL BaseEdge.calc_jacobians of
     error-only custom edges vs the true derivative of  t |-> err(x_k [+] t e_d)  computed by dual numbers (the rules
     of ExprR.evalD, proved sound by evalD_sound) through a HAND-WRITTEN boxplus (independent of the translator),
     within  h/2 * (second-derivative scale) + cancellation floor  (theorem C16_fd_error gives the first term);
     and calc_jacobians must leave every pose value unchanged.
 (b) paired_optimisations: the same graph once with error-only custom edges (numerical Jacobians) and once with
     analytic Jacobians (EdgeOdometry for the relative-pose edges, the dual-number derivative for distance /
     midpoint edges): both converge and the optima agree to 1e-5 relative; a noise-free graph started at its
     solution stays there (theorem C16_zero_residual).
 (c) both draw quaternions with negative scalar part, SE(2) headings next to +-pi, vertices listed in any order
     with arbitrary ids, and vertices sharing one pose object."""
import math
import random
import sys

import numpy as np

import vlib
import corr_fd as X
import corr_poses

sys.path.insert(0, vlib.REPO)
from graphslam.edge.base_edge import BaseEdge  # noqa: E402
from graphslam.edge.edge_odometry import EdgeOdometry  # noqa: E402
from graphslam.graph import Graph  # noqa: E402
from graphslam.vertex import Vertex  # noqa: E402

V, C, add, sub, mul, sq, sqrt = X.V, X.C, X.add, X.sub, X.mul, X.sq, X.sqrt
EPS = 2.0 ** -52


# ------------------------------------------------------------------------------- hand-written boxplus (the "truth")
def boxplus_exprs(kind):
    """pose [+] delta over env = pose array ++ delta (compact).  SE(2): the angle is NOT re-wrapped (every error
    function of the family is 2pi-periodic in the vertex angles, so the value is the same and the map is smooth
    across +-pi); SE(3): q (x) [r, sqrt(1-|r|^2)], t + R(q) d."""
    if kind in ('R2', 'R3'):
        n = X.LEN[kind]
        return [add(V(i), V(n + i)) for i in range(n)]
    if kind == 'SE2':
        x, y, th, d0, d1, d2 = (V(i) for i in range(6))
        c, s = ('Cos', th), ('Sin', th)
        return [sub(add(x, mul(d0, c)), mul(d1, s)), add(add(y, mul(d0, s)), mul(d1, c)), add(th, d2)]
    px, py, pz, x, y, z, w = (V(i) for i in range(7))
    d0, d1, d2, r0, r1, r2 = (V(7 + i) for i in range(6))
    two = C(2)
    one = C(1)
    R = [[sub(one, mul(two, add(sq(y), sq(z)))), mul(two, sub(mul(x, y), mul(z, w))), mul(two, add(mul(x, z), mul(y, w)))],
         [mul(two, add(mul(x, y), mul(z, w))), sub(one, mul(two, add(sq(x), sq(z)))), mul(two, sub(mul(y, z), mul(x, w)))],
         [mul(two, sub(mul(x, z), mul(y, w))), mul(two, add(mul(y, z), mul(x, w))), sub(one, mul(two, add(sq(x), sq(y))))]]
    d = [d0, d1, d2]
    pos = [add(p, X.sumx([mul(R[i][j], d[j]) for j in range(3)])) for i, p in enumerate([px, py, pz])]
    rw = sqrt(sub(one, add(add(sq(r0), sq(r1)), sq(r2))))
    q = [sub(add(add(mul(w, r0), mul(x, rw)), mul(y, r2)), mul(z, r1)),
         add(add(sub(mul(w, r1), mul(x, r2)), mul(y, rw)), mul(z, r0)),
         add(sub(add(mul(w, r2), mul(x, r1)), mul(y, r0)), mul(z, rw)),
         sub(sub(sub(mul(w, rw), mul(x, r0)), mul(y, r1)), mul(z, r2))]
    return pos + q


BOX = {k: boxplus_exprs(k) for k in X.KINDS}


def true_jacobian(exprs, kinds, start, params, k):
    """dual-number derivative of err w.r.t. the compact increment of slot k, at increment 0 -> rows x CDIM"""
    kd = kinds[k]
    offs, _ = X.offsets(kinds)
    base = [(x, 0.0) for v in start for x in v] + [(x, 0.0) for x in params]
    cols = []
    for d in range(X.CDIM[kd]):
        env1 = [(x, 0.0) for x in start[k]] + [(0.0, 1.0 if j == d else 0.0) for j in range(X.CDIM[kd])]
        memo = {}
        newp = [X.evald(e, env1, memo) for e in BOX[kd]]
        env2 = list(base)
        env2[offs[k]:offs[k] + X.LEN[kd]] = newp
        memo = {}
        cols.append([X.evald(e, env2, memo)[1] for e in exprs])
    return [[cols[d][i] for d in range(len(cols))] for i in range(len(exprs))]


def phi(exprs, kinds, start, params, k, d, t):
    kd = kinds[k]
    offs, _ = X.offsets(kinds)
    env1 = list(start[k]) + [t if j == d else 0.0 for j in range(X.CDIM[kd])]
    newp = [X.evalf(e, env1) for e in BOX[kd]]
    env2 = [x for v in start for x in v] + list(params)
    env2[offs[k]:offs[k] + X.LEN[kd]] = newp
    memo = {}
    return [X.evalf(e, env2, None, memo) for e in exprs]


def second_derivative_scale(exprs, kinds, start, params, k, d):
    """max over two step sizes of the central second difference of t |-> err(x_k [+] t e_d), per component"""
    out = [0.0] * len(exprs)
    p0 = phi(exprs, kinds, start, params, k, d, 0.0)
    for dl in (1e-3, 1e-2):
        pp = phi(exprs, kinds, start, params, k, d, dl)
        pm = phi(exprs, kinds, start, params, k, d, -dl)
        for i in range(len(exprs)):
            v = abs(pp[i] - 2 * p0[i] + pm[i]) / (dl * dl)
            if v != v:
                v = float('inf')
            out[i] = max(out[i], v)
    return out


def pose_unchanged(kind, before, after):
    """bitwise, except that an SE(2) angle may change by a multiple of 2pi up to 4 ulp (copy() re-wraps: the stored
    value +pi_f becomes -pi_f, the same heading)"""
    if len(before) != len(after):
        return False
    for i, (a, b) in enumerate(zip(before, after)):
        if X.same_bits(a, b):
            continue
        if kind == 'SE2' and i == 2:
            dth = (a - b + math.pi) % (2 * math.pi) - math.pi
            if abs(dth) <= 2e-15:
                continue
        return False
    return True


def moderate_case(rng, fams):
    """a case of the family with moderate magnitudes (so that accuracy bounds are meaningful), still drawing the
    sensitive classes: w<0, headings next to +-pi, shared pose objects, distinct random ids"""
    c = X.gen_case(rng, fams, flavour=rng.choices(['typical', 'adversarial', 'shared'], [0.4, 0.35, 0.25])[0])
    far = rng.random() < 0.25        # survey-sized coordinates (the step of the forward difference is absolute, 1e-6, wherever the poses are)
    centre = [rng.uniform(-5000, 5000) for _ in range(3)]
    for i, k in enumerate(c['kinds']):
        n = X.PDIM[k]
        c['vals'][i][:n] = [(centre[j] if far else 0.0) + rng.gauss(0, 4) for j in range(n)]
        if k == 'SE3':
            q = [rng.gauss(0, 1) for _ in range(4)]
            nn = math.sqrt(sum(x * x for x in q))
            q = [x / nn for x in q]
            if c['flavour'] != 'typical' and rng.random() < 0.7:
                q = [(-x if q[3] > 0 else x) for x in q]
            c['vals'][i][3:] = q
        if k == 'SE2' and abs(c['vals'][i][2]) > 4:
            c['vals'][i][2] = rng.uniform(-math.pi, math.pi)
    c['far_centre'] = centre if far else None
    for i, j in enumerate(c['share']):
        if j is not None:
            c['vals'][i] = list(c['vals'][j])
    # parameters of moderate size
    name = c['family']
    if name in ('distance', 'sqrange', 'midpoint', 'between3'):
        c['params'] = [rng.gauss(0, 1) for _ in c['params']]
    else:
        k = c['kinds'][0]
        pv = corr_poses.gen_pose_vals(rng, k, 'typical')
        pv[:X.PDIM[k]] = [rng.gauss(0, 4) for _ in range(X.PDIM[k])]
        if k == 'SE3' and rng.random() < 0.4:
            pv[3:] = [-x for x in pv[3:]]
        c['params'] = [float(x) for x in np.asarray(corr_poses.make_pose(k, pv))]
    return c


def fd_accuracy_case(case, exprs):
    """-> (n_entries_checked, failure dict or None)"""
    real = X.run_real(case, exprs)
    if 'exc' in real:
        return 0, dict(case=case, why='calc_jacobians raised ' + real['exc'])
    kinds = case['kinds']
    h = real['h']
    env = [x for v in real['start'] for x in v] + list(case['params'])
    maj = [X.evalm(e, env) for e in exprs]
    checked = 0
    for k in range(len(kinds)):
        try:
            jt = true_jacobian(exprs, kinds, real['start'], case['params'], k)
        except (X.NotDifferentiable, ValueError, OverflowError, ZeroDivisionError):
            continue
        jr = real['jac'][k]
        if len(jr) != len(exprs) or any(len(r) != X.CDIM[kinds[k]] for r in jr):
            return checked, dict(case=case, why='Jacobian %d has shape %dx%d, expected %dx%d' % (
                k, len(jr), len(jr[0]) if jr else 0, len(exprs), X.CDIM[kinds[k]]))
        for d in range(X.CDIM[kinds[k]]):
            m2 = second_derivative_scale(exprs, kinds, real['start'], case['params'], k, d)
            for i in range(len(exprs)):
                tol = 0.5 * h * (4 * m2[i]) + 1e-6 * abs(jt[i][d]) + 1024 * EPS * maj[i] / h + 1e-9
                if not (tol < 1e-2 * max(1.0, abs(jt[i][d]))):
                    continue              # ill-conditioned point (near a singularity of the error): no meaningful bound
                checked += 1
                if not abs(jr[i][d] - jt[i][d]) <= tol:
                    return checked, dict(case=case, slot=k, row=i, column=d, numerical=jr[i][d], true=jt[i][d], tol=tol,
                                         why='numerical Jacobian of slot %d, entry (%d,%d) = %r, true derivative %r (tolerance %.3g)'
                                             % (k, i, d, jr[i][d], jt[i][d], tol))
    for k, ((kn, fin), st) in enumerate(zip(real['final'], real['start'])):
        if kn != kinds[k] or not pose_unchanged(kinds[k], st, fin):
            return checked, dict(case=case, slot=k, why='calc_jacobians changed the pose of slot %d: %r -> %s %r' % (k, st, kn, fin))
    return checked, None


def fd_accuracy(seed, n, fams=None):
    rng = random.Random(seed * 7919 + 11)
    if fams is None:
        fams = X.all_families(X.Ops())
    ev = entries = 0
    fails = []
    hist = {'family': {}, 'flavour': {}, 'w_negative_poses': 0, 'angle_within_1e-5_of_pi': 0, 'shared_object_cases': 0}
    names = sorted(set(f[0] for f in fams))
    for _ in range(n):
        nm = rng.choice(names)
        c = moderate_case(rng, [f for f in fams if f[0] == nm])
        exprs = X.find_family(fams, c)
        got, f = fd_accuracy_case(c, exprs)
        if f is None and c.get('far_centre') and c['family'] in ('distance', 'sqrange', 'relpose', 'between3'):
            # these errors depend on differences of positions only: the numerical Jacobians of the configuration moved next to the origin
            # must be the same matrices (the majorant floor of fd_accuracy_case is too coarse to bound anything at |x| ~ 5000)
            near = dict(c, vals=[list(v) for v in c['vals']])
            for i, k in enumerate(c['kinds']):
                for j in range(X.PDIM[k]):
                    near['vals'][i][j] = c['vals'][i][j] - c['far_centre'][j]
            ra, rb = X.run_real(c, exprs), X.run_real(near, exprs)
            if 'exc' not in ra and 'exc' not in rb:
                for k in range(len(c['kinds'])):
                    A, B = np.array(ra['jac'][k], dtype=np.float64), np.array(rb['jac'][k], dtype=np.float64)
                    if A.shape == B.shape and A.size and not np.allclose(A, B, rtol=0, atol=2e-4 * (1.0 + float(np.abs(B).max()))):
                        f = dict(case=c, slot=k, why='numerical Jacobian of slot %d at coordinates near %s differs from the one of the same configuration moved to the '
                                 'origin by %.3g (the error depends on position differences only)' % (k, [round(x) for x in c['far_centre']], float(np.abs(A - B).max())),
                                 far=A.tolist(), near=B.tolist())
                        break
        ev += 1
        entries += got
        hist['family'][c['family']] = hist['family'].get(c['family'], 0) + 1
        hist['flavour'][c['flavour']] = hist['flavour'].get(c['flavour'], 0) + 1
        hist['shared_object_cases'] += any(s is not None for s in c['share'])
        for k, v in zip(c['kinds'], c['vals']):
            hist['w_negative_poses'] += (k == 'SE3' and v[6] < 0)
            hist['angle_within_1e-5_of_pi'] += (k == 'SE2' and abs(abs(v[2]) - math.pi) < 1e-5)
        if f:
            fails.append(f)
    return ev, entries, fails, hist


# ------------------------------------------------------------------------------- paired optimisations
class RelPoseEdge(BaseEdge):
    """what a user writes: only the error, with the pose operators; the same error as EdgeOdometry"""

    def calc_error(self):
        return (self.estimate - (self.vertices[1].pose - self.vertices[0].pose)).to_compact()

    def is_valid(self):
        return self._is_valid()


class ExprEdgeAnalytic(X.ExprEdge):
    """the same error as ExprEdge with the exact (dual-number) Jacobians"""

    def calc_jacobians(self):
        kinds = [type(v.pose).__name__.replace('Pose', '') for v in self.vertices]
        start = [[float(x) for x in np.asarray(v.pose)] for v in self.vertices]
        params = [float(x) for x in np.asarray(self.estimate).reshape(-1)]
        return [np.array(true_jacobian(self.exprs, kinds, start, params, k), dtype=np.float64) for k in range(len(kinds))]


def np_boxplus(kind, arr, delta):
    env = [float(x) for x in arr] + [float(x) for x in delta]
    return [X.evalf(e, env) for e in BOX[kind]]


def graph_spec(rng, kind=None, n=None, noise=0.01, share=None):
    """a pose graph as in C05: n poses on a smooth trajectory, odometry chain + loop closures (relative-pose
    edges), a few distance edges and one 3-vertex midpoint edge; measurements from the truth with small noise;
    initial guess = truth perturbed.  Everything is plain data (replayable)."""
    kind = kind or rng.choice(X.KINDS)
    n = n or rng.randint(3, 10)
    truth = []
    near_pi = rng.random() < 0.5
    for i in range(n):
        a = 0.35 * i + (math.pi - 0.6 if near_pi else 0.0)
        pos = [3.0 * math.cos(0.5 * i) + 0.3 * i, 3.0 * math.sin(0.5 * i), 0.2 * i * ((-1) ** i)]
        if kind == 'R2':
            truth.append(pos[:2])
        elif kind == 'R3':
            truth.append(pos)
        elif kind == 'SE2':
            truth.append([float(x) for x in np.asarray(corr_poses.make_pose('SE2', pos[:2] + [a]))])
        else:
            ax = [math.sin(0.3 * i + 0.2), math.cos(0.4 * i), 0.5]
            nn = math.sqrt(sum(x * x for x in ax))
            ang = a
            q = [math.sin(ang / 2) * x / nn for x in ax] + [math.cos(ang / 2)]
            if rng.random() < 0.5:
                q = [(-x if q[3] > 0 else x) for x in q]          # negative scalar part
            truth.append(pos + q)
    cd = X.CDIM[kind]

    def jitter(arr, s):
        d = [rng.gauss(0, s) for _ in range(cd)]
        out = np_boxplus(kind, arr, d)
        if kind == 'SE2':
            out = [float(x) for x in np.asarray(corr_poses.make_pose('SE2', out))]
        return out
    pairs = [(i, i + 1) for i in range(n - 1)]
    for _ in range(rng.randint(1, 3)):
        i, j = rng.sample(range(n), 2)
        if (i, j) not in pairs and (j, i) not in pairs:
            pairs.append((i, j))
    rel = []
    for (i, j) in pairs:
        pi, pj = corr_poses.make_pose(kind, truth[i]), corr_poses.make_pose(kind, truth[j])
        z = [float(x) for x in np.asarray(pj - pi)]
        rel.append({'i': i, 'j': j, 'z': jitter(z, noise) if noise else z})
    dist = []
    for _ in range(rng.randint(0, 2)):
        i, j = rng.sample(range(n), 2)
        pd = X.PDIM[kind]
        dd = math.sqrt(sum((truth[i][t] - truth[j][t]) ** 2 for t in range(pd)))
        if dd > 0.5:
            dist.append({'i': i, 'j': j, 'z': dd + (rng.gauss(0, noise) if noise else 0.0)})
    mid = []
    if n >= 3 and rng.random() < 0.7:
        i, j, k = rng.sample(range(n), 3)
        pd = X.PDIM[kind]
        mid.append({'i': i, 'j': j, 'k': k,
                    'z': [truth[j][t] - 0.5 * (truth[i][t] + truth[k][t]) + (rng.gauss(0, noise) if noise else 0.0) for t in range(pd)]})
    init = [list(truth[0])] + [jitter(truth[i], 0.03 if noise else 0.0) for i in range(1, n)]
    order = list(range(n))
    first = order.pop(0)
    rng.shuffle(order)
    order = [first] + order                      # the first listed vertex is the fixed one; the others in any order
    ids = rng.sample(range(-50, 1000), n)
    shared = []
    if share if share is not None else (rng.random() < 0.35 and n >= 3):
        i = rng.randrange(1, n - 1)
        init[i + 1] = list(init[i])               # two vertices start from ONE pose object
        shared.append((i, i + 1))
        dist = [r for r in dist if {r['i'], r['j']} != {i, i + 1}]      # a distance error is not differentiable at distance 0
    return {'kind': kind, 'n': n, 'truth': truth, 'init': init, 'rel': rel, 'dist': dist, 'mid': mid, 'order': order,
            'ids': ids, 'shared': shared, 'noise': noise}


def build_graph(spec, numerical):
    kind = spec['kind']
    poses = [None] * spec['n']
    bufs = {}
    for i in range(spec['n']):
        src = next((a for (a, b) in spec['shared'] if b == i), None)
        if src is not None:
            poses[i] = corr_poses.CLS[kind](bufs[src]) if kind in ('R2', 'R3') else poses[src]
        elif kind in ('R2', 'R3'):
            bufs[i] = np.array(spec['init'][i], dtype=np.float64)
            poses[i] = corr_poses.CLS[kind](bufs[i])
        else:
            poses[i] = corr_poses.make_pose(kind, spec['init'][i])
    ids = spec['ids']
    vertices = [Vertex(ids[i], poses[i]) for i in spec['order']]
    cd = X.CDIM[kind]
    pd = X.PDIM[kind]
    edges = []
    for r in spec['rel']:
        z = corr_poses.make_pose(kind, r['z'])
        cls = RelPoseEdge if numerical else EdgeOdometry
        edges.append(cls([ids[r['i']], ids[r['j']]], np.eye(cd), z))
    ecls = X.ExprEdge if numerical else ExprEdgeAnalytic
    fd = X.family(None, 'distance', (kind, kind))[0]
    fm = X.family(None, 'midpoint', (kind, kind, kind))[0]
    for r in spec['dist']:
        edges.append(ecls([ids[r['i']], ids[r['j']]], np.eye(1), np.array([r['z']]), fd))
    for r in spec['mid']:
        edges.append(ecls([ids[r['i']], ids[r['j']], ids[r['k']]], np.eye(pd), np.array(r['z']), fm))
    return Graph(edges, vertices)


def pose_by_id(g):
    return {v.id: [float(x) for x in np.asarray(v.pose)] for v in g._vertices}


def rel_diff(kind, a, b):
    """relative difference of two poses (SE(2) angle modulo 2pi; SE(3) quaternion up to sign)"""
    a, b = list(a), list(b)
    if kind == 'SE2':
        a[2] = b[2] + ((a[2] - b[2] + math.pi) % (2 * math.pi) - math.pi)
    if kind == 'SE3' and sum(x * y for x, y in zip(a[3:], b[3:])) < 0:
        a[3:] = [-x for x in a[3:]]
    return max(abs(x - y) for x, y in zip(a, b)) / max(1.0, max(abs(y) for y in b))


def paired_case(spec):
    """-> failure dict, 'skip' or None"""
    kind = spec['kind']
    try:
        gn = build_graph(spec, True)
        ga = build_graph(spec, False)
        rn = gn.optimize(tol=1e-9, max_iter=40, verbose=False)
        ra = ga.optimize(tol=1e-9, max_iter=40, verbose=False)
        cn, ca = float(gn.calc_chi2()), float(ga.calc_chi2())
    except X.NotDifferentiable:
        return 'skip'                              # an iterate hit a singular point of an error function (distance 0)
    except Exception as ex:  # noqa
        return dict(spec=spec, why='optimisation raised %s: %s' % (type(ex).__name__, ex))
    pn, pa = pose_by_id(gn), pose_by_id(ga)
    worst = max(rel_diff(kind, pn[i], pa[i]) for i in pa)
    if not (ra.converged and math.isfinite(ca)):
        return 'skip'                              # the analytic run itself did not converge: not a C16 question (C05)
    if not (rn.converged and math.isfinite(cn)):
        return dict(spec=spec, why='the analytic-Jacobian run converged (chi2 %.6g) but the numerical-Jacobian run did not (chi2 %r)' % (ca, cn))
    if not worst <= 1e-5:
        return dict(spec=spec, why='optima differ: max relative pose difference %.3g (chi2 numerical %.9g, analytic %.9g)' % (worst, cn, ca))
    if not abs(cn - ca) <= 1e-5 * max(1.0, ca):
        return dict(spec=spec, why='final chi2 differ: numerical %.9g analytic %.9g' % (cn, ca))
    if spec['noise'] == 0:
        t = {spec['ids'][i]: spec['truth'][i] for i in range(spec['n'])}
        w2 = max(rel_diff(kind, pn[i], t[i]) for i in t)
        if not (w2 <= 1e-6 and cn <= 1e-10):
            return dict(spec=spec, why='zero-residual state is not a fixed point of the numerical-Jacobian run: moved by %.3g, chi2 %.3g' % (w2, cn))
    return None


def paired_optimisations(seed, n):
    rng = random.Random(seed * 104729 + 5)
    ev = conv = 0
    fails = []
    hist = {'kind': {}, 'n': {}, 'shared': 0, 'noise_free': 0, 'w_negative_vertices': 0}
    for t in range(n):
        kind = X.KINDS[t % 4]
        noise = 0.0 if t % 5 == 4 else 0.01
        spec = graph_spec(rng, kind=kind, noise=noise)
        f = paired_case(spec)
        ev += 1
        hist['kind'][kind] = hist['kind'].get(kind, 0) + 1
        hist['n'][str(spec['n'])] = hist['n'].get(str(spec['n']), 0) + 1
        hist['shared'] += bool(spec['shared'])
        hist['noise_free'] += (noise == 0)
        if kind == 'SE3':
            hist['w_negative_vertices'] += sum(1 for p in spec['init'] if p[6] < 0)
        if f == 'skip':
            hist['analytic_run_did_not_converge'] = hist.get('analytic_run_did_not_converge', 0) + 1
        elif f:
            fails.append(f)
        else:
            conv += 1
    return ev, conv, fails, hist


if __name__ == '__main__':
    import json
    s = int(sys.argv[1]) if len(sys.argv) > 1 else 1
    ev, entries, fails, hist = fd_accuracy(s, 60)
    print('fd_accuracy', ev, entries, len(fails), json.dumps(hist))
    for f in fails[:3]:
        print(json.dumps(f, default=str)[:1200])
    ev, conv, fails, hist = paired_optimisations(s, 20)
    print('paired', ev, conv, len(fails), json.dumps(hist))
    for f in fails[:3]:
        print(f['why'], json.dumps(f['spec'], default=str)[:600])


# ------------------------------------------------------------------------------- error functions in the style users write them
# The accessors position / orientation / to_array() / to_compact() / to_matrix() / copy() hand out NEW arrays; user code is free to compute in
# place on what they return (d = p.position; d -= q.position).  The numerical Jacobians of such edges are held to the same standard.
class _UserEdge(BaseEdge):
    def is_valid(self):
        return True


class RangeInPlace(_UserEdge):
    """| position_1 - position_0 | - z, computed in place on the array returned by .position"""

    def calc_error(self):
        d = self.vertices[1].pose.position
        d -= self.vertices[0].pose.position
        return np.array([math.sqrt(float(d @ d)) - float(self.estimate)])


class MidpointInPlace(_UserEdge):
    """position_1 - (position_0 + position_2) / 2 - z, accumulated in place"""

    def calc_error(self):
        m = self.vertices[0].pose.position
        m += self.vertices[2].pose.position
        m *= 0.5
        r = self.vertices[1].pose.position
        r -= m
        r -= np.asarray(self.estimate)
        return r


class ArrayPriorInPlace(_UserEdge):
    """to_array() of the pose minus a prior, in place on the returned array (position part only, so that it is smooth for every pose type)"""

    def calc_error(self):
        a = self.vertices[0].pose.to_array()
        n = len(self.vertices[0].pose.position)
        a[:n] -= np.asarray(self.estimate)
        a[:n] *= 2.0
        return a[:n]


class CopyShiftInPlace(_UserEdge):
    """distance between two poses after shifting a copy() of the first in place"""

    def calc_error(self):
        c = self.vertices[0].pose.copy()
        n = len(c.position)
        np.ndarray.__setitem__(c, slice(0, n), np.asarray(c)[:n] + np.asarray(self.estimate))
        d = c.position - self.vertices[1].pose.position
        return np.array([float(d @ d)])


def _positions_fn(name, z):
    """the same errors as pure functions of the vertices' POSITIONS (lists of floats)"""
    if name == 'RangeInPlace':
        return lambda P: [math.sqrt(sum((a - b) ** 2 for a, b in zip(P[1], P[0]))) - z]
    if name == 'MidpointInPlace':
        return lambda P: [P[1][t] - 0.5 * (P[0][t] + P[2][t]) - z[t] for t in range(len(z))]
    if name == 'ArrayPriorInPlace':
        return lambda P: [2.0 * (P[0][t] - z[t]) for t in range(len(z))]
    return lambda P: [sum((P[0][t] + z[t] - P[1][t]) ** 2 for t in range(len(z)))]


def handwritten_edges(seed, n):
    """-> (edges checked, failures): numerical Jacobians of the hand-written edges above vs central differences (h = 1e-5) of the pure function
    through the hand-written boxplus; every pose bitwise unchanged after calc_error() and after calc_jacobians()"""
    rng = random.Random(seed)
    fails, evals = [], 0
    classes = {'RangeInPlace': (RangeInPlace, 2), 'MidpointInPlace': (MidpointInPlace, 3), 'ArrayPriorInPlace': (ArrayPriorInPlace, 1), 'CopyShiftInPlace': (CopyShiftInPlace, 2)}
    for i in range(n):
        name = rng.choice(sorted(classes))
        cls, nvert = classes[name]
        kind = rng.choice(X.KINDS)
        pd = X.PDIM[kind]
        starts = []
        for k in range(nvert):
            pos = [rng.uniform(-4, 4) + 6.0 * k for _ in range(pd)]
            if kind == 'SE2':
                pos = pos + [rng.uniform(-3, 3)]
            elif kind == 'SE3':
                q = [rng.gauss(0, 1) for _ in range(4)]
                nn = math.sqrt(sum(x * x for x in q))
                pos = pos + [x / nn for x in q]
            starts.append([float(x) for x in np.asarray(corr_poses.make_pose(kind, pos))])
        z = rng.uniform(0.5, 3.0) if name == 'RangeInPlace' else [rng.uniform(-1, 1) for _ in range(pd)]
        vs = [Vertex(10 + k, corr_poses.make_pose(kind, starts[k])) for k in range(nvert)]
        e = cls([v.id for v in vs], np.eye(1 if name in ('RangeInPlace', 'CopyShiftInPlace') else pd), z if name == 'RangeInPlace' else np.array(z), vs)
        f = _positions_fn(name, z)
        case = {'edge': name, 'kind': kind, 'poses': starts, 'estimate': z}
        if rng.random() < 0.4:
            # history that must not matter: the edge was linearised (chi2 / gradient / Hessian, as optimize() does) at ANOTHER state, then the
            # vertices were given the poses of this case
            case['history'] = 'calc_chi2_gradient_hessian() at other poses, then the vertices moved here'
            try:
                keep = [v.pose for v in vs]
                for v in vs:
                    v.pose = v.pose + np.array([rng.gauss(0, 0.5) for _ in range(X.CDIM[kind])])
                e.calc_chi2_gradient_hessian()
                for v, p_ in zip(vs, keep):
                    v.pose = p_
            except Exception as ex:  # noqa
                fails.append(dict(case, why='linearising the edge raised %r' % (ex,)))
                continue
        try:
            before = [np.array(v.pose).tobytes() for v in vs]
            err = [float(x) for x in np.asarray(e.calc_error()).reshape(-1)]
            if [np.array(v.pose).tobytes() for v in vs] != before:
                fails.append(dict(case, why='calc_error() of an edge that only computes on what the accessors return changed a vertex pose: %r'
                                            % [[float(x) for x in np.asarray(v.pose)] for v in vs]))
                continue
            ref = f([s[:pd] for s in starts])
            if max(abs(a - b) for a, b in zip(err, ref)) > 1e-9 * (1 + max(abs(x) for x in ref)):
                fails.append(dict(case, why='error %r, the same expression on plain lists gives %r' % (err, ref)))
                continue
            Js = [np.asarray(J, dtype=np.float64) for J in e.calc_jacobians()]
            evals += 1
            if [np.array(v.pose).tobytes() for v in vs] != before:
                fails.append(dict(case, why='calc_jacobians() left the poses changed: %r' % [[float(x) for x in np.asarray(v.pose)] for v in vs]))
                continue
            cd = X.CDIM[kind]
            h = 1e-5
            for k in range(nvert):
                Jt = np.zeros((len(ref), cd))
                for d in range(cd):
                    dl = [0.0] * cd
                    dl[d] = h
                    Pp = [s[:pd] for s in starts]
                    Pm = [s[:pd] for s in starts]
                    Pp[k] = np_boxplus(kind, starts[k], dl)[:pd]
                    Pm[k] = np_boxplus(kind, starts[k], [-x for x in dl])[:pd]
                    Jt[:, d] = (np.array(f(Pp)) - np.array(f(Pm))) / (2 * h)
                if Js[k].shape != Jt.shape or not np.abs(Js[k] - Jt).max() <= 1e-4 * (1.0 + np.abs(Jt).max()):
                    fails.append(dict(case, vertex=k, why='numerical Jacobian w.r.t. vertex %d differs from the derivative by %g' %
                                                           (k, float(np.abs(Js[k] - Jt).max()) if Js[k].shape == Jt.shape else float('nan')),
                                      numeric=Js[k].tolist(), derivative=Jt.tolist()))
                    break
        except Exception as ex:  # noqa
            fails.append(dict(case, why='raised %r' % (ex,)))
    return evals, fails
