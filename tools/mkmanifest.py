#!/usr/bin/env python3
"""mkmanifest.py -- developer helper: writes /verif/MANIFEST.json from the table below (the table is
the single place where claimed levels are recorded).  Not used by the checks."""
import json
import os

VERIF = os.path.dirname(os.path.dirname(os.path.abspath(__file__)))
AX = ('Trusted: Coq 8.16.1 kernel; axioms ClassicalDedekindReals.sig_forall_dec, sig_not_dec and '
      'FunctionalExtensionality.functional_extensionality_dep (standard-library reals, as printed by Print Assumptions); coqchk -o (thorough tier) '
      'lists in addition Classical_Prop.classic, declared by the standard library and loaded through Reals/Coquelicot, on which no property theorem depends; ')
TR = ('the ast translator tools/tr_poses.py + symx.py (validated on every run by evaluating the generated terms over PrimFloat '
      'inside Coq against the implementation); numpy float64 = IEEE binary64; numpy sin/cos values taken as given. ')

CLAIMS = {
    'C01': ('proof',
            'Theorem C01 (coq/props/C01.v): for all 8 edge kinds (odometry R2/R3/SE2/SE3, landmark SE2->R2, SE3->R3, Rn->Rn with any '
            'offset) and both vertices, the matrix calc_jacobians returns (program regenerated from the source) applied to any tangent '
            'direction u equals the derivative at 0 of every error component along vertex [+] t u -- proved by a chain-rule argument over the '
            'regenerated stages with the C10 tangent identities; SE(3)/R^n: no hypothesis on operands at all (any quaternion, w<0, 180 deg); '
            'SE(2): the only excluded points are those the property itself excludes (odometry: angle residual z-(th2-th1) an odd multiple of pi, where the '
            'error jumps); intermediate normalisations are shown to cancel by periodicity (proofs/C01_SE2_full.v); SE(2) landmark: no point excluded.',
            AX + TR + 'tools/tr_edges.py likewise validated by the PrimFloat correspondence of the edge programs. np.dot = textbook matrix product. Theorem over exact reals.',
            'Coq proof (chain rule over regenerated staged programs, dual numbers + ring) + PrimFloat correspondence'),
    'C02': ('proof',
            'Theorem C02 (coq/props/C02.v): the error programs regenerated from calc_error satisfy the measurement model stated with the '
            'independent specification lib/Spec.v -- odometry: err = compact(E) with M(p1) M(D) = M(p2), M(D) M(E) = M(z) (so E = (p1^-1 p2)^-1 z); '
            'landmark: (p (+) offset) applied to (err + z) is the landmark; R^n closed forms; the regenerated np.dot form of calc_chi2 is the '
            'quadratic form e^T Omega e; graph chi2 = sum over the edge list, non-negative for PSD information, linear in Omega, zero iff every '
            'error vanishes (PD), invariant under permuting edges; a vanishing error means the measurement equals the relative pose / maps onto the landmark.',
            AX + TR + 'Unit-quaternion hypotheses on SE(3) operands exactly where the code unit-norm rotation form is compared with the homogeneous form. Over exact reals.',
            'Coq proof over regenerated model (ring identities vs independent spec, induction over edge list) + PrimFloat correspondence'),
    'C03': ('proof',
            'Theorem C03 (coq/props/C03.v): for EVERY well-formed graph (any number of edges, parallel and anti-parallel edges, slots in either order, '
            '1..n slots, mixed dimensions, any set of fixed vertices) the gradient vector, the Hessian matrix and the chi2 assembled by the model of '
            '_Chi2GradientHessian.update / _calc_chi2_gradient_hessian (defaultdicts with first-contribution-adopted, transposition rule, slice writes, '
            'mirror write, fixed-key rules, identity block of every fixed vertex) equal, entry by entry, the independently written normal equations '
            'b = sum J^T Omega e, H = sum J^T Omega J with the fixed-vertex pattern (lib/GNSpec.v); the update moves every free vertex by boxplus of '
            'its own slice of dx; the hypothesis "slots distinct" is shown necessary by a refuting witness.',
            AX + 'hand-written model lib/GraphModel.v (dictionaries in insertion order, slice writes as pointwise block writes) validated on every run by an EXACT integer correspondence against graph.py; spsolve is not modelled (theorems quantify over every increment / every solution of H dx = -b); lil_matrix, dict order and set membership are modelled, not verified.',
            'Coq proof (induction over edge list / dictionary / vertex list, pointwise sums) + exact integer correspondence'),
    'C04': ('proof',
            'Theorem C04 (coq/props/C04.v): the R^2/R^3 odometry and landmark programs regenerated from the source are affine with the constant '
            'Jacobians they report; for graphs of such edges (any topology, multi-edges, offsets, any fixed set) one exact Gauss-Newton step from ANY '
            'start yields zero gradient, the Hessian does not depend on the state, a zero-gradient state is a fixed point (injective H), chi2 expands '
            'exactly as chi2* + 2 b.d + sum (J d)^T Omega (J d), hence a zero-gradient state is a global minimiser for PSD information and the unique one '
            'for an injective Hessian. Both halves are joined for whole graphs (proofs/C04_whole.v): for every graph over one point per vertex with R^2/R^3 '
            'odometry and landmark edges, the GraphModel records built from what the regenerated programs return at the state moved by dx (through the code\'s '
            'boxplus) are entry-wise the shifted records, so from ANY start ANY solution dx of the normal equations leads to a state with zero assembled '
            'gradient and the same Hessian (C04_one_step_Rn; premises met by a concrete graph; C04_one_step_Rn_assembled for the system produced by the assembly algorithm). That optimize() reaches it in doubles from starts 1e6 away and reports its chi2 is checked by the oracle '
            '(independent numpy lstsq).',
            AX + 'hand-written model lib/GraphModel.v (dictionaries in insertion order, slice writes as pointwise block writes) validated on every run by an EXACT integer correspondence against graph.py; spsolve is not modelled (theorems quantify over every increment / every solution of H dx = -b); lil_matrix, dict order and set membership are modelled, not verified.' + TR,
            'Coq proof (Gauss-Newton algebra over GNSpec: flat-to-block sums, symmetry of Omega) + exact integer correspondence + lstsq oracle'),
    'C05': ('proof',
            'PARTIAL. Theorem C05 (coq/props/C05.v) proves the part that is logic: the chi2 of an edge along a boxplus perturbation is differentiable '
            'with derivative built from the error and the CODE Jacobian (generic quad_derive_curve + C01; instances: SE(3) and SE(2) odometry and landmark edges, '
            'both vertices); for WHOLE SE(3) graphs of odometry and landmark edges over one pose per vertex (proofs/C05_grad.v) chi2 of the graph is '
            'differentiable along pose_k [+] t e_i for every free vertex k and tangent coordinate i, and its derivative at 0 is exactly twice the entry of the '
            'gradient vector of the normal equations built from the records of the regenerated programs (C05_gradient_SE3: the vector graph.py assembles, by C03, '
            'is half the gradient of chi2 on the manifold; premises met by a concrete 3-vertex graph); the same for whole SE(2) graphs under the SE(2) side '
            'conditions of C01 (stored angles in [-pi, pi), no odometry edge on the jump set of its own error: C05_gradient_SE2, proofs/C05_grad2.v); end to end (proofs/C05_assembled.v, with assembly_correct of C03) the vector the ASSEMBLY ALGORITHM of the graph model '
            'produces from those records is half that gradient and its chi2 is the graph chi2; a state is first-order '
            'stationary iff the assembled gradient vanishes, the Gauss-Newton increment is a descent direction (b.dx = -dx^T H dx), a consistent '
            'configuration has chi2 = 0 and zero gradient, the stopping rule never reports convergence on an increase; and it REFUTES that the stopping '
            'rule alone implies final chi2 <= initial chi2. NOT proved (and not provable with what is installed): the quantitative local-convergence claim '
            '-- basin of attraction of un-damped Gauss-Newton and the double-precision Newton decrement through SuperLU; that half is a calibrated SOAK TEST '
            '(bounds in DESIGN.md section 5/C05 and in the evidence), reported as a test.',
            AX + 'hand-written model lib/GraphModel.v validated by the exact integer correspondence; spsolve not modelled; ' + TR + 'OptLoopR (C12) for the stopping rule.',
            'Coq proof (Coquelicot derivative of the quadratic form, sum algebra over GNSpec) + calibrated soak test for convergence'),
    'C06': ('proof',
            'Theorem C06 (coq/props/C06.v): on a fixed vertex the assembled gradient is 0 and the Hessian row/column is the identity pattern, so ANY '
            'solution of the normal equations has a zero increment there; the update loop skips fixed vertices, so they keep their pose for any number '
            'of iterations and ANY increments (singular, non-finite, diverging solves); a zero increment does not move a pose; the free part of a '
            'solution solves the reduced system; if the reduced matrix is injective so is the assembled one (fixing never spoils well-posedness); '
            'fix_first_pose fixes exactly the first listed vertex. Together with C03 (assembly) and the exact correspondence.',
            AX + 'hand-written model lib/GraphModel.v (dictionaries in insertion order, slice writes as pointwise block writes) validated on every run by an EXACT integer correspondence against graph.py; spsolve is not modelled (theorems quantify over every increment / every solution of H dx = -b); lil_matrix, dict order and set membership are modelled, not verified.',
            'Coq proof over hand-written model (with the C03 assembly theorem) + exact integer correspondence + oracle on singular/diverging runs'),
    'C07': ('proof',
            'Theorem C07 (coq/props/C07.v): for all 8 regenerated edge programs the error (hence chi2) is unchanged when every '
            'vertex is left-composed with one rigid transform (unit quaternions for SE(3); landmark points moved by the action); boxplus commutes with '
            'the transform (landmarks: d\' = R_T d); Jacobians of the transformed edges: pose slots J\' = J (SE(3) by uniqueness of the derivative from C01, '
            'SE(2) as matrices with no side condition), landmark slots J\' = J R_T^-1 with R_T R_T^-1 = I; graph level (lib/GNSpec.v): for ANY per-vertex change '
            'of tangent basis J\' = J Q with Q P = I, every solution d of the normal equations gives the solution P d of the re-based system and chi2 is '
            'unchanged (basis_change_inv, via the C04 gradient-shift lemma); two abstract trajectory theorems (solver = function of an invariant '
            'linearisation; solver = any map returning a solution of a uniquely solvable system, with transformed increments); the glue between edge level '
            'and graph level is proved entry by entry for the landmark slots (J\'[a][j] = sum_m J[a][m] M[m][j] with M the rotation matrix of T^-1, i.e. the body '
            'of tb_mat); the two levels are joined for WHOLE graphs (proofs/C07_ext.v, C07_inst.v, C07_whole.v, C07_wholeRn.v): the normal equations read only '
            'entries inside the matrix bounds, the GraphModel records built from what the regenerated SE(3)/SE(2) odometry and landmark programs return at '
            'the transformed poses are entry-wise the re-based records, so for every such graph, every fixed set, every T and every solution d of the normal '
            'equations P d solves those of the transformed graph (C07_graph_SE3_descr, C07_graph_SE2_descr; premises met by a concrete 3-vertex graph); R^n graphs '
            'under a translation have literally equal records (C07_graph_Rn); the SE(3) statement is also given for the system the assembly algorithm of the graph model '
            'produces (C07_graph_SE3_assembled, proofs/Assembled.v, through assembly_correct of C03; the transformed description is shown well-formed). Not formalised: that one vertex carries one pose in all its edges (not needed '
            'edge-wise), custom edges; solution uniqueness is a hypothesis of the trajectory theorem; the '
            'metamorphic oracle (transforms up to 1e7, iteration counts compared) and the reduced optimizer-loop correspondence cover the composition.',
            AX + TR + 'Over exact reals; floating-point agreement of trajectories is tested by the oracle with magnitude-aware tolerances.',
            'Coq proof over regenerated model (ring identities, uniqueness of derivative, induction over iterations) + metamorphic oracle'),
    'C08': ('proof',
            'PARTIAL. Theorem C08 (coq/props/C08.v): the assembled system and chi2 are invariant under permuting the edge list; an injective '
            'relabelling of ids (negative, sparse, huge) gives the same binding; theta + 2 k pi constructs the same SE(2) pose; splitting an edge into two with '
            'half the information each leaves b, H, chi2 unchanged; scaling all information by c keeps every solution dx and scales chi2; negating a unit '
            'quaternion leaves landmark errors unchanged and maps the odometry error e to S e, so chi2 is unchanged for block-diagonal information -- '
            'and the unrestricted claim is REFUTED by a witness (known finding, not repaired). Permuting the VERTEX list: the flat system is the same '
            'system with rows and columns renumbered (spec_b / spec_H / chi2 equalities through the renumbering phi), solutions correspond, and with distinct '
            'ids the binding of edges follows the permutation (bind_vperm). Partial because of the refuted quaternion-sign sub-claim and because "the '
            'optimization result is unchanged" is proved as correspondence of the linear systems and their solutions, not through the float solver.',
            AX + 'hand-written model lib/GraphModel.v (dictionaries in insertion order, slice writes as pointwise block writes) validated on every run by an EXACT integer correspondence against graph.py; spsolve is not modelled (theorems quantify over every increment / every solution of H dx = -b); lil_matrix, dict order and set membership are modelled, not verified.' + TR,
            'Coq proof (sum permutation/linearity lemmas over GNSpec, ring identities on regenerated programs, refutation by witness) + metamorphic oracle'),
    'C09': ('proof',
            'Theorem C09 (coq/props/C09.v): for the pose model regenerated from pose/*.py on every run, (+) is the product of homogeneous '
            'matrices / Hamilton product of an independently written specification (lib/Spec.v), a (-) b = b^-1 (+) a, inverse and identity are '
            'two-sided, composition is associative, pose (+) point is the action, boxplus = (+) with the pose of that compact form (both '
            'branches of the qnorm>1 test), __iadd__ = (+), and the operand-kind dispatch facts; all reals, unit-norm hypotheses exactly where needed.',
            AX + TR + 'Theorem over exact reals.',
            'Coq proof over regenerated model (ring identities vs independent spec) + PrimFloat correspondence'),
    'C10': ('proof',
            'Theorem C10 (coq/props/C10.v): every entry of every public Jacobian method of the four pose classes, as regenerated from the '
            'source by the ast translator, is the derivative (Coquelicot is_derive) of the named operation for all real operands; SE(2) rows '
            'under the stated not-at-the-wrap side condition; boxplus with its qnorm>1 branch; compact variants are row prefixes; documented shapes.',
            AX + TR + 'Theorem over exact reals, not doubles.',
            'Coq proof over regenerated model (dual numbers + ring) + PrimFloat correspondence'),
    'C11': ('proof',
            'PARTIAL. Theorem C11 (coq/props/C11.v) proves the exact-arithmetic content: every SE(2) operation stores wrap(exact angle) with '
            'wrap x in [-pi,pi) and congruent to x mod 2pi; |q|^2 is multiplicative under (+),(-), preserved by inverse and by both boxplus '
            'branches, hence along ANY chain of operations and ANY number of optimizer updates (induction over the operation list); '
            'normalize() yields unit norm, w>=0 and the same rotation. NOT proved: the size of floating-point drift of |q| and the closed end '
            '[-pi,pi] in doubles -- those are a soak test reported in the evidence, never counted as obligations.',
            AX + TR + 'Float drift is tested, not proved.',
            'Coq proof (invariant by induction over operation chains) + PrimFloat correspondence + soak test for rounding'),
    'C12': ('proof',
            'Theorems C12_initial, C12_iter_chi2, C12_final, C12_stop, C12_stop_R, C12_verbose, C12_split, C12_split_tol0_R, C12_no_hidden_state '
            '(coq/props/C12.v) over the hand-written executable model lib/OptLoop.v of Graph.optimize (abstract chi2_of / step / prep, generic scalar '
            'interface instantiated with R for the documented reading and with PrimFloat for the correspondence): the report carries exactly the '
            'chi2 of the successive states, the run stops at the first iteration satisfying the documented rule else at max_iter, converged / '
            'num_iterations / number of entries say exactly that, verbose does not alter state or report, a run without an early stop splits into '
            'consecutive calls, and the returned state is step^N of the start (no hidden state) -- all by induction over max_iter. C12_split_boundary_refuted '
            'documents that a stop exactly at the cut breaks splitting. Tied to the code by a BIT-EXACT correspondence on scripted chi2 tables '
            '(monotone, plateau, rise, inf, nan; 6 tolerances x max_iter 0..30 x verbose x fix_first_pose).',
            'Trusted: Coq kernel; generic theorems closed under the global context, the R readings use sig_forall_dec and functional_extensionality_dep; '
            'step (assembly + spsolve + boxplus) and prep (fix_first_pose) are abstract parameters here (modelled in lib/GraphModel.v for C03/C06); '
            'str.format and wall-clock fields not modelled; hand model validated by correspondence.',
            'Coq proof over hand-written model (induction over iterations) + bit-exact PrimFloat correspondence'),
    'C13': ('proof',
            'Theorems C13_roundtrip, C13_cycles, C13_refuses, C13_unpack_pack (coq/props/C13.v) over the hand-written executable model '
            'lib/G2OModel.v of Graph.to_g2o / from_g2o (real text lines, prefix dispatch in the code order, tokenisation, triangular packing, '
            'parameter dictionary): for ALL well-formed expressible graphs import(render(export g)) = canon g with no warning, canon is '
            'idempotent, export succeeds exactly on the expressible graphs and every inexpressible cause is an error. Numbers are opaque atoms; '
            'str()/float()/int() are a trusted oracle stated as Section hypotheses and validated on every run. Tied to the code by a bitwise '
            'correspondence (model evaluated inside Coq vs files written / graphs read by the implementation). chi2 equality after a cycle is '
            'checked by the oracle only; the quaternion-sign chi2 change is a recorded known finding.',
            'Trusted: Coq kernel (all C13 theorems closed under the global context, no axioms); hypotheses parse(print x)=x, int(str i)=i, tokens '
            'whitespace-free, wrap/normq idempotent (validated by the harness; normq only to 1-2 ulp in doubles); hand model validated by correspondence, not verified.',
            'Coq proof over hand-written model + exact token-level correspondence'),
    'C14': ('proof',
            'Theorems C14_one_object_per_line, C14_fields, C14_skip, C14_prefix_disjoint, C14_ws (coq/props/C14.v) over lib/G2OModel.v: each '
            'supported line yields exactly one object carrying exactly the tokens of that line, information unpacked symmetrically, landmark '
            'offsets resolved with the parameter dictionary as of that line, blank lines skipped silently and unrecognised lines skipped with one '
            'warning without affecting any other line, tags pairwise non-prefixes, whitespace runs ignored -- for all line lists (induction). '
            'Tied to the code by running the model inside Coq on generated files vs Graph.from_g2o and all five loaders.',
            'Trusted: Coq kernel (closed under the global context); float()/int() answers supplied by Python as tables (oracle); hand model validated by correspondence.',
            'Coq proof over hand-written model + exact correspondence on generated files'),
    'C15': ('proof',
            'PARTIAL. Theorem C15 (coq/props/C15.v): on the store-effect table regenerated from every method of the package (tools/tr_effects.py: '
            'attribute/subscript stores, augmented assignments, in-place mutators, out= arguments, calls followed transitively by name) every query '
            '(errors, chi2, analytic Jacobians, contributions, equals, exports) stores to no pose, measurement, information matrix, offset, fixed flag, id or '
            'binding; the numerical-Jacobian path stores only to the pose attribute of its vertices (restored: C16); pose operators never write into their '
            'operands; optimize() stores only to vertex poses, the fixed flag, private caches and fresh objects. Finite space, proved by computation, '
            'with rejecting examples. NOT covered by the theorem: aliasing through shared objects / numpy views and repeatability of values -- bitwise-snapshot oracle only.',
            'Trusted: Coq kernel (closed under the global context); the effect translator is a conservative syntactic analysis, not a semantics of Python; its adequacy is validated only by the oracle.',
            'Coq proof by computation over a regenerated effect table + bitwise-snapshot oracle under random query interleavings'),
    'C16': ('proof',
            'PARTIAL. Theorems C16_fd_matrix(_copy_id), C16_fd_error(_1e6), C16_fd_entry_error, C16_pairs, C16_assembly_fd, C16_zero_residual '
            '(coq/props/C16.v) over the hand-written executable model lib/FDModel.v of BaseEdge._calc_jacobian / calc_jacobians: for ANY error '
            'function, number of vertices and pose kinds the loop returns, column by column, exactly the forward difference (err(perturbed) - err)/h with '
            'the stated perturbed state and restores the poses (induction over range(dim) and the slot list); Taylor-Lagrange bound |FD - phi\'(0)| <= M h / 2 '
            '(Coquelicot), instantiated for h = 1e-6; an n-slot edge contributes J_i^T Omega J_j for every i <= j and the assembled system is the Gauss-Newton '
            'system of those Jacobians (assembly_correct instantiated); a state with all errors zero is a fixed point whatever the Jacobians. NOT proved: '
            'cancellation in doubles at h = 1e-6, the bound M per edge family, equality of numerical and analytic optima on noisy problems -- oracle tests.',
            AX + 'Classical_Prop.classic additionally under the Taylor theorems (via Coquelicot); hand model validated by a bit-exact correspondence against BaseEdge.calc_jacobians.',
            'Coq proof over hand-written model (induction, Taylor-Lagrange) + bit-exact correspondence + accuracy / paired-optimisation oracle'),
    'C17': ('proof',
            'Theorems C17_total, C17_iff, C17_refl, C17_near, C17_far, C17_structural (coq/props/C17.v) over the hand-written model '
            'lib/EqualsModel.v of the five equals methods with Python failure modes explicit (VRaise): for all well-formed poses, vertices, '
            'edges and graphs equals never raises, is True iff structures match and every array pair passes the code test, True below tol^2, False '
            '(both directions) above tol*(max norm+tol) and for any structural difference; graph lifting by induction over the zipped lists. '
            'The sqrt-free rational instance executed in the correspondence is proved equal to the real instance (C17_executed_model_is_real_model).',
            AX + 'hand model validated by an exhaustive correspondence over object shapes (thorough: all 1134^2 edge-shape pairs); numpy norm/shape/broadcast semantics assumed; reals only (no NaN).',
            'Coq proof over hand-written model + exhaustive verdict correspondence'),
    'C18': ('proof',
            'Theorems C18_binding, C18_binding_order_independent, C18_unknown_id, C18_iff, C18_inconsistent_rejected, C18_consistent_sound_* '
            '(coq/props/C18.v) over lib/ValidModel.v (Graph._initialize, _is_valid, EdgeOdometry/EdgeLandmark.is_valid): construction succeeds iff all '
            'ids are known and every edge is consistent with a declarative specification written independently of is_valid; consistent edges '
            'compute without raising and with conforming shapes according to the REGENERATED pose dispatch tables (finite kind space, proof by '
            'computation lifted with forallb). Correspondence: thorough tier enumerates the full cross product of the quantifier (1.1e6 constructions).',
            'Trusted: Coq kernel (closed under the global context); hand model validated by exhaustive correspondence; dict-overwrite and isinstance semantics assumed; python -O (assert stripped) outside the quantifier.',
            'Coq proof over hand-written model and regenerated dispatch tables + exhaustive correspondence'),
}

PENDING = {}


def chk(pid, level, text, note, tech):
    base = 'cd /verif && PYTHONPATH=/repo PYTHONHASHSEED=0 /venv/bin/python tools/check.py %s' % pid
    return {'property_id': pid, 'quick_cmd': base + ' --tier quick', 'thorough_cmd': base + ' --tier thorough',
            'evidence_file': '/verif/evidence/%s.json' % pid,
            'replay_cmd_template': base + ' --replay {path}', 'engine': 'coq-proof',
            'level_claimed': {'category': level, 'text': text, 'design_ref': 'DESIGN.md section 5, ' + pid},
            'level_note': note, 'technique': tech}


def main():
    props = [json.loads(l) for l in open(os.path.join(VERIF, 'properties.jsonl'))]
    claimed = sorted(CLAIMS)
    man = {
        'version': 1,
        'setup_cmd': 'cd /verif && PYTHONPATH=/repo PYTHONHASHSEED=0 /venv/bin/python tools/setup.py',
        'hooks': {'guard': 'GRAPHSLAM_VERIF',
                  'enable': 'no source hooks are needed: instrumentation is done from the harness (wrapping graphslam.graph.spsolve, '
                            'test-only BaseEdge subclasses defined in tools/)',
                  'baseline_off_cmd': 'cd /repo && /venv/bin/python -m pytest -q -p no:cacheprovider --timeout=900',
                  'source_commits': [], 'add_only': True},
        'engines': [
            {'name': 'coq-proof', 'path': 'coq/', 'serves_properties': claimed,
             'kind_free_text': 'Coq 8.16.1 development: generated model (coq/gen, regenerated from /repo by tools/tr_*.py on every run), '
                               'hand-written libraries and proofs, property theorems in coq/props'},
            {'name': 'check-driver', 'path': 'tools/check.py', 'serves_properties': claimed,
             'kind_free_text': 'Python driver: regeneration, make, Print Assumptions, correspondence (model evaluated inside Coq vs '
                               'implementation), direct oracles for replays, evidence, known-findings protocol'}],
        'checks': [chk(p, *CLAIMS[p]) for p in claimed],
        'notes': 'See DESIGN.md. Technique family: machine-checked proof in Coq 8.16.1. Genuine defects repaired by fix: commits in /repo are '
                 'listed in known_findings.json (status fixed).',
        'not_applicable': [{'property_id': p['id'], 'reason': PENDING.get(p['id'], 'not yet built in this revision (planned, see DESIGN.md section 5)')}
                           for p in props if p['id'] not in CLAIMS]}
    json.dump(man, open(os.path.join(VERIF, 'MANIFEST.json'), 'w'), indent=1)
    print('claimed:', claimed)


if __name__ == '__main__':
    main()
