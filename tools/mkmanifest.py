#!/usr/bin/env python3
"""mkmanifest.py -- developer helper: writes /verif/MANIFEST.json from the table below (the table is
the single place where claimed levels are recorded).  Not used by the checks."""
import json
import os

VERIF = os.path.dirname(os.path.dirname(os.path.abspath(__file__)))
AX = ('Trusted: Coq 8.16.1 kernel; axioms ClassicalDedekindReals.sig_forall_dec, sig_not_dec and '
      'FunctionalExtensionality.functional_extensionality_dep (standard-library reals, as printed by Print Assumptions); ')
TR = ('the ast translator tools/tr_poses.py + symx.py (validated on every run by evaluating the generated terms over PrimFloat '
      'inside Coq against the implementation); numpy float64 = IEEE binary64; numpy sin/cos values taken as given. ')

CLAIMS = {
    'C01': ('proof',
            'Theorem C01 (coq/props/C01.v): for all 8 edge kinds (odometry R2/R3/SE2/SE3, landmark SE2->R2, SE3->R3, Rn->Rn with any '
            'offset) and both vertices, the matrix calc_jacobians returns (program regenerated from the source) applied to any tangent '
            'direction u equals the derivative at 0 of every error component along vertex [+] t u -- proved by a chain-rule argument over the '
            'regenerated stages with the C10 tangent identities; SE(3)/R^n: no hypothesis on operands at all (any quaternion, w<0, 180 deg); '
            'SE(2): vertex angle in range and the wrapped angles of the stages not exactly at the wrap (the property excludes only the outer '
            'one; the two extra measure-zero sets are covered by the finite-difference oracle only -- stated in the evidence).',
            AX + TR + 'tools/tr_edges.py likewise validated by the PrimFloat correspondence of the edge programs. np.dot = textbook matrix product. Theorem over exact reals.',
            'Coq proof (chain rule over regenerated staged programs, dual numbers + ring) + PrimFloat correspondence'),
    'C09': ('proof',
            'Theorem C09 (coq/props/C09.v): for the pose model regenerated from pose/*.py on every run, (+) is the product of homogeneous '
            'matrices / Hamilton product of an independently written specification (lib/Spec.v), a (-) b = b^-1 (+) a, inverse and identity are '
            'two-sided, composition is associative, pose (+) point is the action, boxplus = (+) with the pose of that compact form (both '
            'branches of the qnorm>1 test), __iadd__ = (+), and the operand-kind dispatch facts; all reals, unit-norm hypotheses exactly where needed.',
            AX + TR + 'Theorem over exact reals.',
            'Coq proof over regenerated model (ring identities vs independent spec) + PrimFloat correspondence'),
    'C10': ('proof',
            'Theorem C10 (coq/props/C10.v): every entry of every public Jacobian method of the four pose classes, as regenerated from the '
            'source by the ast translator, is the derivative (Coquelicot is_derive) of the named operation for all real operands; SE(2) rows '
            'under the stated not-at-the-wrap side condition; boxplus with its qnorm>1 branch; compact variants are row prefixes; documented shapes.',
            AX + TR + 'Theorem over exact reals, not doubles.',
            'Coq proof over regenerated model (dual numbers + ring) + PrimFloat correspondence'),
    'C11': ('proof',
            'PARTIAL. Theorem C11 (coq/props/C11.v) proves the exact-arithmetic content: every SE(2) operation stores wrap(exact angle) with '
            'wrap x in [-pi,pi) and congruent to x mod 2pi; |q|^2 is multiplicative under (+),(-), preserved by inverse and by both boxplus '
            'branches, hence along ANY chain of operations and ANY number of optimizer updates (induction over the operation list); '
            'normalize() yields unit norm, w>=0 and the same rotation. NOT proved: the size of floating-point drift of |q| and the closed end '
            '[-pi,pi] in doubles -- those are a soak test reported in the evidence, never counted as obligations.',
            AX + TR + 'Float drift is tested, not proved.',
            'Coq proof (invariant by induction over operation chains) + PrimFloat correspondence + soak test for rounding'),
}

PENDING = {}


def chk(pid, level, text, note, tech):
    base = 'cd /verif && PYTHONPATH=/repo PYTHONHASHSEED=0 /venv/bin/python tools/check.py %s' % pid
    return {'property_id': pid, 'quick_cmd': base + ' --tier quick', 'thorough_cmd': base + ' --tier thorough',
            'evidence_file': '/verif/evidence/%s.json' % pid,
            'replay_cmd_template': base + ' --replay {path}', 'engine': 'coq-proof',
            'level_claimed': {'category': level, 'text': text, 'design_ref': 'DESIGN.md section 5, ' + pid},
            'level_note': note, 'technique': tech}


def main():
    props = [json.loads(l) for l in open(os.path.join(VERIF, 'properties.jsonl'))]
    claimed = sorted(CLAIMS)
    man = {
        'version': 1,
        'setup_cmd': 'cd /verif && PYTHONPATH=/repo PYTHONHASHSEED=0 /venv/bin/python tools/setup.py',
        'hooks': {'guard': 'GRAPHSLAM_VERIF',
                  'enable': 'no source hooks are needed: instrumentation is done from the harness (wrapping graphslam.graph.spsolve, '
                            'test-only BaseEdge subclasses defined in tools/)',
                  'baseline_off_cmd': 'cd /repo && /venv/bin/python -m pytest -q -p no:cacheprovider --timeout=900',
                  'source_commits': [], 'add_only': True},
        'engines': [
            {'name': 'coq-proof', 'path': 'coq/', 'serves_properties': claimed,
             'kind_free_text': 'Coq 8.16.1 development: generated model (coq/gen, regenerated from /repo by tools/tr_*.py on every run), '
                               'hand-written libraries and proofs, property theorems in coq/props'},
            {'name': 'check-driver', 'path': 'tools/check.py', 'serves_properties': claimed,
             'kind_free_text': 'Python driver: regeneration, make, Print Assumptions, correspondence (model evaluated inside Coq vs '
                               'implementation), direct oracles for replays, evidence, known-findings protocol'}],
        'checks': [chk(p, *CLAIMS[p]) for p in claimed],
        'notes': 'See DESIGN.md. Technique family: machine-checked proof in Coq 8.16.1. Genuine defects repaired by fix: commits in /repo are '
                 'listed in known_findings.json (status fixed).',
        'not_applicable': [{'property_id': p['id'], 'reason': PENDING.get(p['id'], 'not yet built in this revision (planned, see DESIGN.md section 5)')}
                           for p in props if p['id'] not in CLAIMS]}
    json.dump(man, open(os.path.join(VERIF, 'MANIFEST.json'), 'w'), indent=1)
    print('claimed:', claimed)


if __name__ == '__main__':
    main()
