"""oracle_graph.py -- direct oracles on the implementation for the graph-level properties (C03, C04, C06,
C08): independent dense numpy normal equations, reduced problems, metamorphic transformations.
They are tests whose purpose is to produce concrete replays."""
import copy
import math
import random
import warnings

import numpy as np

import corr_poses as cp
import corr_edges as ce
import oracle_edges as oe
from corr_graph import ScriptedEdge

from graphslam.graph import Graph
from graphslam.edge.base_edge import BaseEdge
from graphslam.vertex import Vertex
from graphslam.edge.edge_odometry import EdgeOdometry
from graphslam.edge.edge_landmark import EdgeLandmark
from graphslam.pose.r2 import PoseR2
from graphslam.pose.r3 import PoseR3
from graphslam.pose.se2 import PoseSE2
from graphslam.pose.se3 import PoseSE3

warnings.simplefilter('ignore')


class RangeNumEdge(BaseEdge):
    """a user edge that defines only its error (range between two positions); its Jacobians are the numerical ones of BaseEdge.  The error does
    not depend on the orientation of a pose at all"""

    def calc_error(self):
        n = min(len(self.vertices[0].pose.position), len(self.vertices[1].pose.position))
        d = np.asarray(self.vertices[0].pose.position)[:n] - np.asarray(self.vertices[1].pose.position)[:n]
        return np.array([math.sqrt(float(d @ d)) - float(self.estimate)])

    def is_valid(self):
        return True


def fresh_edge(e, byid):
    """the edge as a NEWLY CONSTRUCTED object of the same class holding the same public data, bound by id to the given vertices: nothing an edge
    object may have remembered from earlier evaluations comes along (built-in classes; other classes: a shallow copy)"""
    if type(e) is EdgeOdometry:
        e2 = EdgeOdometry(list(e.vertex_ids), e.information, e.estimate)
    elif type(e) is EdgeLandmark:
        e2 = EdgeLandmark(list(e.vertex_ids), e.information, e.estimate, offset=e.offset, offset_id=e.offset_id)
    else:
        e2 = copy.copy(e)
    e2.vertices = [byid[i] for i in e2.vertex_ids]
    return e2


def fresh_graph(g):
    """a newly built Graph over newly built vertices and edges holding the same ids, poses (copies), flags, measurements and information"""
    vs = [Vertex(v.id, v.pose.copy(), fixed=bool(v.fixed)) for v in g._vertices]
    byid = {v.id: v for v in vs}
    es = [fresh_edge(e, byid) for e in g._edges]
    for e in es:
        e.vertices = None
    return Graph(es, vs)


def dense_system(g):
    """independent assembly of the Gauss-Newton system from the edges' own errors and Jacobians"""
    vs = g._vertices
    dims = [v.pose.COMPACT_DIMENSIONALITY for v in vs]
    off = np.concatenate([[0], np.cumsum(dims)]).astype(int)
    N = int(off[-1])
    pos = {id(v): k for k, v in enumerate(vs)}
    byid = {v.id: v for v in vs}
    b = np.zeros(N)
    H = np.zeros((N, N))
    for e0 in g._edges:
        # the edge evaluated at THIS graph's vertices, found by id -- whatever Vertex objects the library left the edge bound to
        e = fresh_edge(e0, byid)
        err = np.asarray(e.calc_error(), dtype=np.float64).reshape(-1)
        Js = [np.asarray(J, dtype=np.float64) for J in e.calc_jacobians()]
        Om = np.asarray(e.information, dtype=np.float64)
        ks = [pos[id(v)] for v in e.vertices]
        for s, k in enumerate(ks):
            b[off[k]:off[k + 1]] += Js[s].T @ Om @ err
            for t, l in enumerate(ks):
                H[off[k]:off[k + 1], off[l]:off[l + 1]] += Js[s].T @ Om @ Js[t]
    for k, v in enumerate(vs):
        if v.fixed:
            b[off[k]:off[k + 1]] = 0
            H[off[k]:off[k + 1], :] = 0
            H[:, off[k]:off[k + 1]] = 0
            H[off[k]:off[k + 1], off[k]:off[k + 1]] = np.eye(dims[k])
    return H, b, off


class _View(object):
    """the graph's own vertices with shallow copies of its edges bound to them BY ID -- an evaluation of the state the
    graph holds that does not go through whatever Vertex objects the graph's edges happen to reference"""

    def __init__(self, vertices, edges):
        self._vertices, self._edges = vertices, edges

    def calc_chi2(self):
        return float(sum(e.calc_chi2() for e in self._edges))


def _independent_view(g):
    byid = {v.id: v for v in g._vertices}
    es = []
    for e in g._edges:
        es.append(fresh_edge(e, byid))
    return _View(g._vertices, es)


def g2o_text(g):
    """the graph as .g2o text in the STANDARD g2o layout, written independently of the library's own exporter (SE(3) graphs: VERTEX_SE3:QUAT,
    VERTEX_TRACKXYZ, PARAMS_SE3OFFSET id x y z qx qy qz qw, EDGE_SE3:QUAT, EDGE_SE3_TRACKXYZ i j param x y z + upper triangle)"""
    def nums(xs):
        return ' '.join(repr(float(x)) for x in xs)

    def triu(M):
        M = np.asarray(M, dtype=np.float64)
        return [M[i, j] for i in range(len(M)) for j in range(i, len(M))]
    lines, params = [], []
    for e in g._edges:
        if isinstance(e, EdgeLandmark):
            key = tuple(float(x) for x in np.asarray(e.offset))
            if key not in params:
                params.append(key)
    for k, key in enumerate(params):
        lines.append('PARAMS_SE3OFFSET %d %s' % (100 + k, nums(key)))
    for v in g._vertices:
        lines.append(('VERTEX_SE3:QUAT %d %s' if isinstance(v.pose, PoseSE3) else 'VERTEX_TRACKXYZ %d %s') % (v.id, nums(np.asarray(v.pose))))
    for e in g._edges:
        if isinstance(e, EdgeLandmark):
            key = tuple(float(x) for x in np.asarray(e.offset))
            lines.append('EDGE_SE3_TRACKXYZ %d %d %d %s %s' % (e.vertex_ids[0], e.vertex_ids[1], 100 + params.index(key), nums(np.asarray(e.estimate)), nums(triu(e.information))))
        else:
            lines.append('EDGE_SE3:QUAT %d %d %s %s' % (e.vertex_ids[0], e.vertex_ids[1], nums(np.asarray(e.estimate)), nums(triu(e.information))))
    return '\n'.join(lines) + '\n'


def prehistory(rng, g, p=0.5):
    """Something that happened to this Graph OBJECT before the run that is being judged, and that must not matter: an optimizer call under
    ANOTHER fixed set (and fix_first_pose), or chi2 queried at other poses -- after which every pose (a fresh copy) and every fixed flag is put
    back.  Returns a label for the replay."""
    if rng.random() > p:
        return None
    vs = g._vertices
    poses0 = [v.pose.copy() for v in vs]
    flags0 = [bool(v.fixed) for v in vs]
    mode = rng.choice(['optimize_other_fixed_set', 'optimize_other_fixed_set', 'chi2_elsewhere'])
    with warnings.catch_warnings(), np.errstate(all='ignore'):
        warnings.simplefilter('ignore')
        try:
            if mode == 'optimize_other_fixed_set':
                for v in vs:
                    v.fixed = False
                for v in rng.sample(vs, rng.randint(1, max(1, len(vs) // 2))):
                    v.fixed = True
                g.optimize(tol=0.0, max_iter=rng.randint(1, 2), fix_first_pose=rng.random() < 0.5, verbose=False)
            else:
                for v in vs:
                    v.pose = v.pose + np.array([rng.gauss(0, 0.3) for _ in range(v.pose.COMPACT_DIMENSIONALITY)])
                g.calc_chi2()
        except Exception:  # noqa
            pass
    for v, p0, f0 in zip(vs, poses0, flags0):
        v.pose = p0
        v.fixed = f0
    return mode


def poses_close(a, b, atol):
    a, b = np.asarray(a, dtype=np.float64), np.asarray(b, dtype=np.float64)
    if len(a) == 7 and np.dot(a[3:], b[3:]) < 0:
        b = np.concatenate([b[:3], -b[3:]])
    if isinstance(a, np.ndarray) and len(a) == 3 and False:
        pass
    return np.allclose(a, b, rtol=0, atol=atol)


def mixed_graph(rng, with_custom=True, fixed_mode='first'):
    """well-posed graph over one pose kind + its point kind, odometry chain, loop closure, landmarks, optional custom edges"""
    kind = rng.choice(['SE2', 'SE3', 'R2', 'R3'])
    g, truth = oe.build_graph(rng, kind, nv=rng.randint(3, 6), landmarks=True, noise=0.02, pert=0.03)
    vs, es = g._vertices, list(g._edges)
    if with_custom and rng.random() < 0.7:
        # a unary prior on a random vertex and (when possible) a ternary constraint, with integer Jacobians
        for ns in (1, 3):
            if len(vs) < ns or rng.random() < 0.3:
                continue
            sel = rng.sample(range(len(vs)), ns)
            m = rng.randint(1, 3)
            A = np.array([[rng.gauss(0, 1) for _ in range(m)] for _ in range(m)])
            om = A @ A.T + np.eye(m)
            jacs = [[[rng.gauss(0, 1) for _ in range(vs[s].pose.COMPACT_DIMENSIONALITY)] for _ in range(m)] for s in sel]
            es.append(ScriptedEdge([vs[s].id for s in sel], om, [rng.gauss(0, .05) for _ in range(m)], jacs))
    # shuffle the vertex list, random (negative / huge) ids
    order = list(range(len(vs)))
    rng.shuffle(order)
    vs2 = [vs[i] for i in order]
    if rng.random() < 0.5:
        remap = {}
        for v in vs2:
            remap[v.id] = rng.choice([-1, 1]) * rng.randint(1, 2 ** 61) if rng.random() < 0.5 else rng.randint(-50, 50) * 7 + len(remap) * 1000
        for e in es:
            e.vertex_ids = [remap[i] for i in e.vertex_ids]
        for v in vs2:
            v.id = remap[v.id]
    rng.shuffle(es)
    for e in es:
        e.vertices = None
    oe.prebind(rng, es, vs2)
    listed = list(vs2)
    g2 = Graph(es, vs2)
    g2._verif_listed = listed          # the vertex list as the caller passed it (fix_first_pose refers to ITS first element)
    if fixed_mode == 'first':
        ffp = True
    else:
        ffp = False
        pose_vs = [v for v in vs2 if not isinstance(v.pose, (PoseR2, PoseR3)) or kind in ('R2', 'R3')]
        chosen = rng.sample(pose_vs, rng.randint(1, max(1, len(pose_vs) // 2)))
        lm_vs = [v for v in vs2 if not any(v is p for p in pose_vs)]
        if lm_vs and rng.random() < 0.4:
            chosen = chosen + [rng.choice(lm_vs)]          # a surveyed landmark: a fixed vertex whose block is narrower than a pose block
        intended_ids = set(v.id for v in chosen)
        if rng.random() < 0.4:
            # the flag given at construction, as the documented third POSITIONAL argument: Vertex(id, pose, True)
            vs3 = [Vertex(v.id, v.pose, True) if any(v is c for c in chosen) else v for v in vs2]
            for e in es:
                e.vertices = None
            listed = list(vs3)
            g2 = Graph(es, vs3)
            g2._verif_listed = listed
        else:
            for v in chosen:
                v.fixed = rng.choice([True, True, np.bool_(True), 1])        # a flag from a numpy mask or an int is as good as True
        g2._verif_fixed_ids = intended_ids          # what the CALLER marked fixed (the oracle never reads this back from the objects)
    return g2, kind, ffp


def gauss_newton_step(seed, n):
    """C03: after EACH of 1..3 successive optimize(max_iter=1) calls the poses equal pose [+] slices of the dense solution of
    H dx = -b computed independently from the state before that call (so stale caches / shared arrays show up from the 2nd step)"""
    rng = random.Random(seed)
    fails, evals = [], 0
    for i in range(n):
        g, kind, ffp = mixed_graph(rng, fixed_mode=rng.choice(['first', 'some']))
        # R^n odometry edges between landmark / point vertices, listed FIRST (constant Jacobians: a natural target for caching)
        pts = [v for v in g._vertices if isinstance(v.pose, (PoseR2, PoseR3))]
        if len(pts) >= 2 and rng.random() < 0.7:
            a, b = rng.sample(pts, 2)
            d = a.pose.COMPACT_DIMENSIONALITY
            e = EdgeOdometry([a.id, b.id], oe.rand_spd(rng, d, 10.0), type(a.pose)(np.asarray(b.pose) - np.asarray(a.pose) + np.array([rng.gauss(0, .05) for _ in range(d)])))
            es = [e] + list(g._edges)
            for x in es:
                x.vertices = None
            g = Graph(es, g._vertices)
        first_listed = getattr(g, '_verif_listed', g._vertices)[0]
        hist = prehistory(rng, g, 0.35)
        if rng.random() < 0.2:
            # legal initial guesses that share storage: one pose object handed to several vertices, or several poses built from one array
            grp = [v for v in g._vertices if type(v.pose) is type(g._vertices[-1].pose)]
            if len(grp) >= 2:
                if isinstance(grp[0].pose, (PoseR2, PoseR3)):
                    arr = np.array(grp[0].pose, dtype=np.float64)
                    for v in grp:
                        v.pose = type(v.pose)(arr)
                else:
                    shared = grp[0].pose.copy()
                    for v in grp:
                        v.pose = shared
        if rng.random() < 0.25:
            # very small (or very large) information: the Gauss-Newton step does not depend on a common scale of the information matrices
            sc_info = 10.0 ** rng.choice([-rng.uniform(9, 13), rng.uniform(6, 9)])
            for e in g._edges:
                e.information = np.asarray(e.information, dtype=np.float64) * sc_info
        bad = False
        for step in range(rng.randint(1, 3)):
            if step > 0 and rng.random() < 0.4:
                # the fixed set GROWS between two calls on the same Graph object (freezing an old pose): the next step is the
                # Gauss-Newton step of the current fixed set, nothing of the earlier assembly may survive
                free_now = [v for v in g._vertices[1:] if not v.fixed]
                if len(free_now) >= 2:
                    rng.choice(free_now).fixed = True
            # fix_first_pose refers to the first vertex of the list the graph was built from: the reference fixes exactly that one (the flag is
            # NOT set beforehand -- it is optimize() that must set it, on that vertex and no other)
            was = first_listed.fixed
            if ffp:
                first_listed.fixed = True
            H, b, off = dense_system(g)
            fx_ref = [bool(v.fixed) for v in g._vertices]
            first_listed.fixed = was
            try:
                if np.linalg.cond(H) > 1e10:
                    break
                dx = np.linalg.solve(H, -b)
            except np.linalg.LinAlgError:
                break
            expected = [np.array(v.pose) if fx_ref[k] else np.array(v.pose + dx[off[k]:off[k + 1]]) for k, v in enumerate(g._vertices)]
            try:
                g.optimize(tol=0.0, max_iter=1, fix_first_pose=ffp, verbose=False)
            except Exception as ex:  # noqa
                fails.append({'law': 'optimize raised %r' % (ex,), 'seed': seed, 'case': i, 'edge': 'graph'})
                bad = True
                break
            evals += 1
            sc = 1.0 + max(float(np.abs(e).max()) for e in expected)
            for k, v in enumerate(g._vertices):
                if not poses_close(expected[k], v.pose, 1e-7 * sc):
                    fails.append({'law': 'pose after iteration %d differs from pose [+] (-H^-1 b) computed by independent dense normal equations' % (step + 1),
                                  'seed': seed, 'case': i, 'kind': kind, 'vertex_position': k, 'expected': expected[k].tolist(),
                                  'got': np.array(v.pose).tolist(), 'edge': 'graph', 'n_vertices': len(g._vertices), 'n_edges': len(g._edges)})
                    bad = True
                    break
            if bad:
                break
    # a dead-reckoned chain of exactly representable poses (every odometry edge has EXACTLY zero error, so interior gradient blocks are exactly
    # zero) plus one inconsistent loop closure: the interior vertices must move all the same
    for i in range(max(2, n // 10)):
        kind = rng.choice(['R2', 'SE2'])
        nv = rng.randint(4, 7)
        P = PoseR2 if kind == 'R2' else PoseSE2
        mk = (lambda x, y: PoseR2([float(x), float(y)])) if kind == 'R2' else (lambda x, y: PoseSE2([float(x), float(y)], 0.0))
        steps = [(rng.randint(1, 3), rng.randint(-2, 2)) for _ in range(nv - 1)]
        pos = [(0, 0)]
        for dx_, dy_ in steps:
            pos.append((pos[-1][0] + dx_, pos[-1][1] + dy_))
        vs = [Vertex(k, mk(*pos[k])) for k in range(nv)]
        d = 2 if kind == 'R2' else 3
        es = [EdgeOdometry([k, k + 1], oe.rand_spd(rng, d, 10.0), mk(*steps[k])) for k in range(nv - 1)]
        es.append(EdgeOdometry([0, nv - 1], oe.rand_spd(rng, d, 10.0), mk(pos[-1][0] + 1, pos[-1][1] - 1)))      # the loop closure disagrees
        g = Graph(es, vs)
        vs[0].fixed = True
        H, b, off = dense_system(g)
        dx = np.linalg.solve(H, -b)
        expected = [np.array(v.pose) if v.fixed else np.array(v.pose + dx[off[k]:off[k + 1]]) for k, v in enumerate(vs)]
        g.optimize(tol=0.0, max_iter=1, fix_first_pose=False, verbose=False)
        evals += 1
        for k, v in enumerate(vs):
            if not poses_close(expected[k], v.pose, 1e-9 * (1 + float(np.abs(expected[k]).max()))):
                fails.append({'law': 'exact dead-reckoned %s chain with one inconsistent loop closure: vertex %d after one iteration is %s, the Gauss-Newton step gives %s '
                                     '(its gradient block is exactly zero, its increment is not)' % (kind, k, np.array(v.pose).tolist(), expected[k].tolist()),
                              'seed': seed, 'case': i, 'edge': 'graph', 'positions': pos, 'steps': steps})
                break
    return evals, fails


def fixed_vertices(seed, n):
    """C06: fixed vertices never move (also singular / diverging runs), fix_first_pose semantics, reduced problem"""
    rng = random.Random(seed)
    fails, evals = [], 0
    for i in range(n):
        mode = rng.choice(['wellposed', 'wellposed', 'isolated_fixed', 'underconstrained', 'all_fixed', 'diverge', 'station', 'shared_start'])
        g, kind, ffp = mixed_graph(rng, with_custom=rng.random() < 0.5, fixed_mode=rng.choice(['first', 'some']))
        vs = g._vertices
        if mode == 'station':
            # a FIXED pose whose only edge is one landmark observation: its own Hessian block J^T Omega J is rank-deficient,
            # which is harmless because the block of a fixed vertex is the identity
            lms = [v for v in vs if isinstance(v.pose, (PoseR2, PoseR3))]
            if kind in ('SE2', 'SE3') and lms:
                P = PoseSE2 if kind == 'SE2' else PoseSE3
                lm = rng.choice(lms)
                st_pose = P([rng.gauss(0, 2) for _ in range(2)], rng.uniform(-3, 3)) if kind == 'SE2' else P([rng.gauss(0, 2) for _ in range(3)], oe.rand_unit_quat(rng))
                station = Vertex(10 ** 8 + i, st_pose, fixed=True)
                z = st_pose.inverse + lm.pose
                dl = lm.pose.COMPACT_DIMENSIONALITY
                es2 = list(g._edges) + [EdgeLandmark([station.id, lm.id], oe.rand_spd(rng, dl, 10.0), z, offset=P.identity(), offset_id=None)]
                for x in es2:
                    x.vertices = None
                g = Graph(es2, vs + [station])
                vs = g._vertices
            else:
                mode = 'wellposed'
        elif mode == 'shared_start':
            # every pose vertex starts from ONE shared pose object (e.g. all initialised at the origin): optimize() must rebind, never
            # write through the shared object
            grp = [v for v in vs if type(v.pose) is type(vs[0].pose)]
            shared = vs[0].pose.copy()
            for v in grp:
                v.pose = shared
        if mode == 'isolated_fixed':
            P = type(vs[0].pose)
            extra = Vertex(10 ** 9 + i, vs[0].pose.copy(), fixed=True)
            g = Graph(g._edges, vs + [extra])
            vs = g._vertices
        elif mode == 'underconstrained':
            g = Graph(g._edges[:max(1, len(g._edges) // 3)], vs)
        elif mode == 'all_fixed':
            for v in vs:
                v.fixed = True
        elif mode == 'diverge':
            for v in vs[1:]:
                if not v.fixed and isinstance(v.pose, (PoseSE2, PoseSE3)):
                    d = np.zeros(v.pose.COMPACT_DIMENSIONALITY); d[-1] = 0.9
                    v.pose = v.pose + d
        if mode in ('wellposed', 'station', 'shared_start') and mode != 'shared_start':
            prehistory(rng, g, 0.3)
        listed = getattr(g, '_verif_listed', None)
        meant = getattr(g, '_verif_fixed_ids', None)
        if meant is not None and mode in ('wellposed', 'diverge', 'underconstrained'):
            lost = [v.id for v in g._vertices if v.id in meant and not v.fixed]
            if lost:
                fails.append({'law': 'vertices created with the fixed flag set (keyword, third positional argument, numpy bool or 1) are not fixed: ids %s' % lost[:3],
                              'seed': seed, 'case': i, 'edge': 'graph'})
                continue
        if rng.random() < 0.3 and len(vs) >= 2 and mode != 'all_fixed':
            # a range measurement (error-only user edge, numerical Jacobians) FROM a vertex that is, or is about to be, fixed
            a = vs[0] if ffp else next((v for v in vs if v.fixed), vs[0])
            b = rng.choice([v for v in vs if v is not a])
            n_ = min(len(a.pose.position), len(b.pose.position))
            dist = float(np.linalg.norm(np.asarray(a.pose.position)[:n_] - np.asarray(b.pose.position)[:n_]))
            if dist > 0.2:
                keep = {k_: getattr(g, k_) for k_ in ('_verif_listed', '_verif_fixed_ids') if hasattr(g, k_)}
                es2 = list(g._edges) + [RangeNumEdge([a.id, b.id], np.array([[rng.uniform(0.5, 5.0)]]), dist + rng.gauss(0, 0.01))]
                for x in es2:
                    x.vertices = None
                g = Graph(es2, list(vs))
                for k_, val in keep.items():
                    setattr(g, k_, val)
                vs = g._vertices
        flags0 = [bool(v.fixed) for v in vs]
        before = [np.array(v.pose).copy() for v in vs]
        iters = rng.randint(1, 20)
        wellposed0 = False
        if mode == 'isolated_fixed':
            # the claim below is only made when the graph is well-posed to begin with (e.g. fixing nothing but a landmark point leaves
            # the rotation of an SE(3) graph about it free: a singular system whatever the isolated vertex does)
            H0, b0, off0 = dense_system(g)
            if ffp and not vs[0].fixed:
                H0[off0[0]:off0[1], :] = 0
                H0[:, off0[0]:off0[1]] = 0
                H0[off0[0]:off0[1], off0[0]:off0[1]] = np.eye(off0[1] - off0[0])
            wellposed0 = bool(np.all(np.isfinite(H0)) and np.linalg.cond(H0) < 1e8)
            iters = min(iters, 3)
        H, b, off = dense_system(g) if mode == 'wellposed' else (None, None, None)
        step_ref = None
        if mode in ('station', 'shared_start'):
            iters = 1
            Hs, bs, offs = dense_system(g)
            fx = [bool(v.fixed) or (ffp and k == 0) for k, v in enumerate(vs)]
            for k in range(len(vs)):
                if fx[k] and not vs[k].fixed:        # fix_first_pose: the reference fixes it too
                    bs[offs[k]:offs[k + 1]] = 0
                    Hs[offs[k]:offs[k + 1], :] = 0
                    Hs[:, offs[k]:offs[k + 1]] = 0
                    Hs[offs[k]:offs[k + 1], offs[k]:offs[k + 1]] = np.eye(offs[k + 1] - offs[k])
            if np.all(np.isfinite(Hs)) and np.linalg.cond(Hs) < 1e10:
                dxs = np.linalg.solve(Hs, -bs)
                step_ref = [np.array(v.pose) if fx[k] else np.array(v.pose + dxs[offs[k]:offs[k + 1]]) for k, v in enumerate(vs)]
        try:
            g.optimize(tol=0.0, max_iter=iters, fix_first_pose=ffp, verbose=False)
        except Exception as ex:  # noqa
            fails.append({'law': 'optimize raised %r (mode %s)' % (ex, mode), 'seed': seed, 'case': i, 'edge': 'graph'})
            continue
        evals += 1
        flags1 = [bool(v.fixed) for v in vs]
        want = list(flags0)
        if ffp:
            want[0] = True
        if flags1 != want:
            fails.append({'law': 'fixed flags after optimize(fix_first_pose=%s): %s, expected %s' % (ffp, flags1, want), 'seed': seed, 'case': i, 'edge': 'graph'})
            continue
        if ffp and listed is not None and len(listed) == len(vs) and mode not in ('isolated_fixed', 'station') and not listed[0].fixed:
            fails.append({'law': 'fix_first_pose=True did not fix the FIRST vertex of the list the graph was built from (a %s); the graph fixed another vertex'
                                 % type(listed[0].pose).__name__, 'seed': seed, 'case': i, 'edge': 'graph',
                          'listed_kinds': [type(v.pose).__name__ for v in listed]})
            continue
        for k, v in enumerate(vs):
            if want[k] and np.array(v.pose).tobytes() != before[k].tobytes():
                fails.append({'law': 'a fixed vertex moved (mode %s, %d iterations)' % (mode, iters), 'seed': seed, 'case': i, 'vertex_position': k,
                              'before': before[k].tolist(), 'after': np.array(v.pose).tolist(), 'edge': 'graph'})
                break
        if step_ref is not None:
            sc = 1.0 + max(float(np.abs(e).max()) for e in step_ref)
            for k, v in enumerate(vs):
                if not poses_close(step_ref[k], v.pose, 1e-7 * sc):
                    fails.append({'law': 'mode %s: after one iteration vertex %d is not pose [+] dx of the reduced dense Gauss-Newton system' % (mode, k),
                                  'seed': seed, 'case': i, 'vertex_position': k, 'expected': step_ref[k].tolist(), 'got': np.array(v.pose).tolist(), 'edge': 'graph'})
                    break
        if mode == 'isolated_fixed' and wellposed0:
            if any(not np.all(np.isfinite(np.array(v.pose))) for v in vs):
                fails.append({'law': 'a fixed vertex with no incident edge made the problem unsolvable (non-finite poses)', 'seed': seed, 'case': i, 'edge': 'graph'})
    # a vertex fixed in one call and released before the next must move again (no stale fixed set)
    for i in range(max(2, n // 5)):
        g, kind, ffp = mixed_graph(rng, with_custom=False, fixed_mode='some')
        vs = g._vertices
        fixed_now = [k for k, v in enumerate(vs) if v.fixed]
        if len(fixed_now) < 2:
            continue
        g.optimize(tol=0.0, max_iter=1, fix_first_pose=False, verbose=False)
        rel = fixed_now[-1]
        vs[rel].fixed = False
        if rng.random() < 0.5:          # ... and another vertex, free so far, is frozen where it is
            free_now = [k for k, v in enumerate(vs) if not v.fixed and k != rel]
            if len(free_now) >= 2:
                vs[rng.choice(free_now)].fixed = True
        for v in vs:       # perturb, so that the released vertex has something to do
            if not v.fixed:
                d = np.array([rng.gauss(0, .05) for _ in range(v.pose.COMPACT_DIMENSIONALITY)])
                v.pose = v.pose + d
        if rng.random() < 0.5:
            # ... and a vertex that STAYS fixed is re-anchored: the caller assigns it a new pose (a corrected survey); the next step is the step
            # of the graph as it is now
            still = [v for v in vs if v.fixed]
            if still:
                v = rng.choice(still)
                d = np.array([rng.gauss(0, .3) for _ in range(v.pose.COMPACT_DIMENSIONALITY)])
                v.pose = v.pose + d
        H, b, off = dense_system(g)
        if np.linalg.cond(H) > 1e10:
            continue
        dx = np.linalg.solve(H, -b)
        expected = [np.array(v.pose) if v.fixed else np.array(v.pose + dx[off[k]:off[k + 1]]) for k, v in enumerate(vs)]
        g.optimize(tol=0.0, max_iter=1, fix_first_pose=False, verbose=False)
        evals += 1
        sc = 1.0 + max(float(np.abs(e).max()) for e in expected)
        for k, v in enumerate(vs):
            if not poses_close(expected[k], v.pose, 1e-7 * sc):
                fails.append({'law': 'after releasing a previously fixed vertex and calling optimize() again the step is not the Gauss-Newton step of the CURRENT fixed set '
                                     '(hidden state across calls)', 'seed': seed, 'case': i, 'vertex_position': k, 'released': rel, 'edge': 'graph'})
                break
    # reduced problem: dx on the free vertices = solution of the reduced dense system
    for i in range(max(2, n // 4)):
        g, kind, ffp = mixed_graph(rng, fixed_mode='some')
        H, b, off = dense_system(g)
        free = [k for k, v in enumerate(g._vertices) if not v.fixed]
        idx = np.concatenate([np.arange(off[k], off[k + 1]) for k in free]) if free else np.array([], dtype=int)
        if len(idx) == 0 or np.linalg.cond(H[np.ix_(idx, idx)]) > 1e10:
            continue
        dxf = np.linalg.solve(H[np.ix_(idx, idx)], -b[idx])
        dx = np.zeros(len(b)); dx[idx] = dxf
        expected = [np.array(v.pose) if v.fixed else np.array(v.pose + dx[off[k]:off[k + 1]]) for k, v in enumerate(g._vertices)]
        g.optimize(tol=0.0, max_iter=1, fix_first_pose=False, verbose=False)
        evals += 1
        sc = 1.0 + max(float(np.abs(e).max()) for e in expected)
        for k, v in enumerate(g._vertices):
            if not poses_close(expected[k], v.pose, 1e-7 * sc):
                fails.append({'law': 'free vertices do not solve the reduced problem', 'seed': seed, 'case': i, 'vertex_position': k, 'edge': 'graph'})
                break
    return evals, fails


def clone_graph(g, vertices=None, edges=None):
    g2 = copy.deepcopy(g)
    return g2


KNOWN_SIGN_KEY = 'odometry-SE3-cross-terms-quat-negated'


def sign_finding_example():
    """fixed hand-written instance of the known finding: same physical graph, different chi2"""
    Om = np.eye(6); Om[0, 5] = Om[5, 0] = 0.5
    q = [0.5, 0.5, 0.5, 0.5]
    vs = [Vertex(0, PoseSE3([0, 0, 0], [0, 0, 0, 1])), Vertex(1, PoseSE3([1, 0.5, 0.2], q))]
    es = [EdgeOdometry([0, 1], Om, PoseSE3([1.2, 0.4, 0.1], [0.45, 0.55, 0.5, 0.49]))]
    g = Graph(es, vs)
    c1 = g.calc_chi2()
    vs[1].pose = PoseSE3([1, 0.5, 0.2], [-x for x in q])
    c2 = g.calc_chi2()
    return c1, c2


def representation_independence(seed, n):
    """C08 metamorphic relations on the implementation"""
    rng = random.Random(seed)
    fails, evals = [], 0

    def run(g, iters, ffp=False):
        g.optimize(tol=0.0, max_iter=iters, fix_first_pose=ffp, verbose=False)
        return {v.id: np.array(v.pose) for v in g._vertices}, g.calc_chi2()
    for i in range(n):
        kind = rng.choice(['SE2', 'SE3', 'R2', 'R3'])
        g0, _ = oe.build_graph(rng, kind, nv=rng.randint(3, 6), landmarks=True, noise=0.02, pert=0.03, info_cross=False)
        g0._vertices[0].fixed = True
        iters = rng.randint(1, 3)
        base = copy.deepcopy(g0)
        try:
            ref, cref = run(copy.deepcopy(base), iters)
        except Exception as ex:  # noqa
            fails.append({'law': 'optimize raised %r on a freshly built graph (some of its edge objects had been bound to other Vertex objects before)' % (ex,),
                          'seed': seed, 'case': i, 'kind': kind, 'edge': 'graph'})
            continue
        if not np.isfinite(cref):
            continue
        c0 = base.calc_chi2()
        sc = 1.0 + max(float(np.abs(p).max()) for p in ref.values())
        tol = 1e-6 * sc

        def check(name, g2, idmap=None, chi2_factor=1.0):
            nonlocal evals
            evals += 1
            c2 = g2.calc_chi2()
            if not abs(c2 - chi2_factor * c0) <= 1e-8 * (1 + abs(c0) * chi2_factor):
                fails.append({'law': 'chi2 changes under %s: %r vs %r' % (name, c2, chi2_factor * c0), 'seed': seed, 'case': i, 'kind': kind, 'edge': 'graph'})
                return
            try:
                res, _ = run(g2, iters)
            except Exception as ex:  # noqa
                fails.append({'law': 'optimize raised %r under %s' % (ex, name), 'seed': seed, 'case': i, 'kind': kind, 'edge': 'graph'})
                return
            for vid, p in ref.items():
                q = res[idmap[vid] if idmap else vid]
                ok = poses_close(p, q, tol)
                if kind == 'SE2' and len(p) == 3 and not ok:
                    ok = np.allclose(p[:2], q[:2], rtol=0, atol=tol) and abs(math.remainder(p[2] - q[2], 2 * math.pi)) < 1e-6
                if not ok:
                    fails.append({'law': 'optimization result changes under %s' % name, 'seed': seed, 'case': i, 'kind': kind, 'vertex': vid,
                                  'expected': p.tolist(), 'got': q.tolist(), 'edge': 'graph'})
                    return
        # the same edge OBJECTS reused for a second graph whose vertices are new objects re-expressed from the initial values (permuted list)
        gA = copy.deepcopy(base)
        init = [(v.id, v.pose.copy(), bool(v.fixed)) for v in gA._vertices]
        try:
            run(gA, iters)
            vB = []
            for vid, p0, fx in init:
                if isinstance(p0, PoseSE2):
                    p0 = PoseSE2([p0[0], p0[1]], float(p0[2]) + 2 * math.pi * rng.randint(-2, 2))
                vB.append(Vertex(vid, p0, fixed=fx))
            rng.shuffle(vB)
            check('building a second graph from the SAME edge objects and new vertex objects holding the initial values', Graph(gA._edges, vB))
        except Exception as ex:  # noqa
            fails.append({'law': 'edge reuse raised %r' % (ex,), 'seed': seed, 'case': i, 'kind': kind, 'edge': 'graph'})
        # permute the edge list
        g2 = copy.deepcopy(base); rng.shuffle(g2._edges); check('a permutation of the edge list', Graph(g2._edges, g2._vertices))
        # permute the vertex list (same vertices fixed)
        g2 = copy.deepcopy(base); rng.shuffle(g2._vertices); check('a permutation of the vertex list', Graph(g2._edges, g2._vertices))
        # relabel ids
        g2 = copy.deepcopy(base)
        idmap = {v.id: rng.choice([-1, 1]) * (rng.randint(1, 2 ** 61) + 7 * k) for k, v in enumerate(g2._vertices)}
        for v in g2._vertices:
            v.id = idmap[v.id]
        for e in g2._edges:
            e.vertex_ids = [idmap[x] for x in e.vertex_ids]
        check('relabelling vertex ids', Graph(g2._edges, g2._vertices), idmap=idmap)
        # 2 pi
        if kind == 'SE2':
            g2 = copy.deepcopy(base)
            for v in g2._vertices:
                if isinstance(v.pose, PoseSE2):
                    v.pose = PoseSE2([v.pose[0], v.pose[1]], float(v.pose[2]) + 2 * math.pi * rng.randint(-3, 3))
            for e in g2._edges:
                if isinstance(e.estimate, PoseSE2):
                    e.estimate = PoseSE2([e.estimate[0], e.estimate[1]], float(e.estimate[2]) + 2 * math.pi * rng.randint(-3, 3))
            check('adding multiples of 2 pi to SE(2) angles', Graph(g2._edges, g2._vertices))
        # split an edge
        g2 = copy.deepcopy(base)
        k = rng.randrange(len(g2._edges))
        e = g2._edges[k]
        e2 = copy.deepcopy(e)
        e.information = e.information / 2.0
        e2.information = e2.information / 2.0
        g2._edges.insert(rng.randrange(len(g2._edges) + 1), e2)
        check('splitting an edge into two edges with half the information', Graph(g2._edges, g2._vertices))
        # scale all information matrices
        g2 = copy.deepcopy(base)
        c = rng.choice([0.25, 3.0, 1e3, 1e-3])
        for e in g2._edges:
            e.information = e.information * c
        check('scaling all information matrices by %g' % c, Graph(g2._edges, g2._vertices), chi2_factor=c)
        # ... by a power of two, with the documented stopping rule in force: every chi2 scales exactly, so the run stops at the same iteration
        pw = rng.choice([-40, -30, 30, 40])
        ga, gb = copy.deepcopy(base), copy.deepcopy(base)
        for e in gb._edges:
            e.information = e.information * (2.0 ** pw)
        gb = Graph(gb._edges, gb._vertices)
        tl = 10 ** rng.uniform(-8, -3)
        try:
            ra = ga.optimize(tol=tl, max_iter=20, fix_first_pose=False, verbose=False)
            rb = gb.optimize(tol=tl, max_iter=20, fix_first_pose=False, verbose=False)
            evals += 1
            # the documented rule divides by (chi2_prev + machine epsilon): that ABSOLUTE epsilon perturbs the relative decrease of the scaled run
            # by eps / (scale * chi2_prev); a decision closer to the threshold than that is not required to be the same
            chis = [ra.initial_chi2] + [it.chi2 for it in ra.iteration_results if it.chi2 is not None]
            borderline = False
            for kk, it in enumerate(ra.iteration_results):
                if it.rel_diff is None or kk >= len(chis) or not chis[kk] or not np.isfinite(chis[kk]):
                    continue
                r = -float(it.rel_diff)
                delta = 2.0 ** -52 / (abs(chis[kk]) * 2.0 ** pw)
                if abs(r - tl) <= 4 * delta * max(abs(r), tl) + 1e-300 or delta > 0.05:
                    borderline = True
            if borderline:
                pass
            elif np.isfinite(ga.calc_chi2()) and ((ra.num_iterations, bool(ra.converged)) != (rb.num_iterations, bool(rb.converged))
                                                or not abs(gb.calc_chi2() - ga.calc_chi2() * 2.0 ** pw) <= 1e-9 * abs(ga.calc_chi2() * 2.0 ** pw) + 1e-300):
                fails.append({'law': 'scaling all information matrices by 2^%d changes the run: %s iterations (converged=%s, chi2/scale %r) instead of %s '
                                     '(converged=%s, chi2 %r) at tol=%g' % (pw, rb.num_iterations, rb.converged, gb.calc_chi2() / 2.0 ** pw, ra.num_iterations,
                                                                          ra.converged, ga.calc_chi2(), tl), 'seed': seed, 'case': i, 'kind': kind, 'edge': 'graph'})
        except Exception as ex:  # noqa
            fails.append({'law': 'optimize raised %r under scaling by 2^%d' % (ex, pw), 'seed': seed, 'case': i, 'kind': kind, 'edge': 'graph'})
        # quaternion signs (information without cross terms, see the known finding)
        if kind == 'SE3':
            g2 = copy.deepcopy(base)
            for v in g2._vertices:
                if isinstance(v.pose, PoseSE3) and rng.random() < 0.5:
                    v.pose = PoseSE3(v.pose[:3], -np.asarray(v.pose[3:]))
            for e in g2._edges:
                if isinstance(e.estimate, PoseSE3) and rng.random() < 0.5:
                    e.estimate = PoseSE3(e.estimate[:3], -np.asarray(e.estimate[3:]))
                if isinstance(e, EdgeLandmark) and rng.random() < 0.5:
                    e.offset = PoseSE3(e.offset[:3], -np.asarray(e.offset[3:]))
            check('negating unit quaternions (block-diagonal information)', Graph(g2._edges, g2._vertices))
            # "no sensor offset" written as the identity with its quaternion negated: (0, 0, 0, -1)
            g2 = copy.deepcopy(base)
            g3 = copy.deepcopy(base)
            for ea, eb in zip(g2._edges, g3._edges):
                if isinstance(ea, EdgeLandmark):
                    ea.offset = PoseSE3([0.0, 0.0, 0.0], [0.0, 0.0, 0.0, 1.0])
                    eb.offset = PoseSE3([0.0, 0.0, 0.0], [0.0, 0.0, 0.0, -1.0])
            try:
                ra, ca_ = run(Graph(g2._edges, g2._vertices), iters)
                rb, cb_ = run(Graph(g3._edges, g3._vertices), iters)
                evals += 1
                if any(not poses_close(ra[k_], rb[k_], tol) for k_ in ra):
                    fails.append({'law': 'an identity landmark offset written with quaternion (0,0,0,-1) instead of (0,0,0,1) changes the optimization result',
                                  'seed': seed, 'case': i, 'kind': kind, 'edge': 'graph'})
            except Exception as ex:  # noqa
                fails.append({'law': 'identity-offset variant raised %r' % (ex,), 'seed': seed, 'case': i, 'kind': kind, 'edge': 'graph'})
            g2 = copy.deepcopy(base)
            # information was generated block-diagonal here (info_cross=False -> identity)
            check('negating unit quaternions (block-diagonal information)', Graph(g2._edges, g2._vertices))
    # negated measurement quaternions written to a .g2o file (block-diagonal information): the loaded graph must optimise to the same result
    import tempfile
    import os
    for i in range(max(2, n // 3)):
        g0, _ = oe.build_graph(rng, 'SE3', nv=rng.randint(3, 5), landmarks=False, noise=0.02, pert=0.03, info_cross=False)
        p1 = os.path.join(tempfile.gettempdir(), 'verif_c08_%d_a.g2o' % os.getpid())
        p2 = os.path.join(tempfile.gettempdir(), 'verif_c08_%d_b.g2o' % os.getpid())
        try:
            g0.to_g2o(p1)
            gneg = copy.deepcopy(g0)
            for e in gneg._edges:
                if isinstance(e.estimate, PoseSE3) and rng.random() < 0.7:
                    e.estimate = PoseSE3(e.estimate[:3], -np.asarray(e.estimate[3:]))
            gneg.to_g2o(p2)
            ga, gb = Graph.from_g2o(p1), Graph.from_g2o(p2)
            evals += 1
            ca, cb = ga.calc_chi2(), gb.calc_chi2()
            if not abs(ca - cb) <= 1e-8 * (1 + abs(ca)):
                fails.append({'law': 'a .g2o file with negated measurement quaternions loads to a graph with a different chi2 (%r vs %r), block-diagonal information' % (ca, cb),
                              'seed': seed, 'case': i, 'edge': 'graph'})
                continue
            ga.optimize(tol=0.0, max_iter=2, verbose=False)
            gb.optimize(tol=0.0, max_iter=2, verbose=False)
            for va, vb in zip(ga._vertices, gb._vertices):
                if not poses_close(np.array(va.pose), np.array(vb.pose), 1e-6 * (1 + float(np.abs(np.array(va.pose)).max()))):
                    fails.append({'law': 'negated measurement quaternions in a .g2o file change the optimization result', 'seed': seed, 'case': i, 'edge': 'graph'})
                    break
        finally:
            for p in (p1, p2):
                if os.path.exists(p):
                    os.remove(p)
    # an edge replaced by two identical edges carrying half the information each, THROUGH a .g2o file (two textually identical lines)
    for i in range(max(2, n // 4)):
        kind = rng.choice(['SE2', 'SE3'])
        g0, _ = oe.build_graph(rng, kind, nv=rng.randint(3, 6), landmarks=False, noise=0.02, pert=0.03, info_cross=False)
        p1 = os.path.join(tempfile.gettempdir(), 'verif_c08_%d_e.g2o' % os.getpid())
        p2 = os.path.join(tempfile.gettempdir(), 'verif_c08_%d_f.g2o' % os.getpid())
        try:
            g0.to_g2o(p1)
            gs = copy.deepcopy(g0)
            ks = rng.sample(range(len(gs._edges)), rng.randint(1, len(gs._edges)))
            new_edges = []
            for k_, e in enumerate(gs._edges):
                if k_ in ks:
                    e.information = e.information / 2.0
                    new_edges += [e, copy.deepcopy(e)]
                else:
                    new_edges.append(e)
            Graph(new_edges, gs._vertices).to_g2o(p2)
            ga, gb = Graph.from_g2o(p1), Graph.from_g2o(p2)
            evals += 1
            ca, cb = ga.calc_chi2(), gb.calc_chi2()
            if len(gb._edges) != len(new_edges) or not abs(ca - cb) <= 1e-9 * (1 + abs(ca)):
                fails.append({'law': 'splitting %d edge(s) of a .g2o file into two identical half-information lines each: %d edges loaded instead of %d, chi2 %r vs %r'
                                     % (len(ks), len(gb._edges), len(new_edges), cb, ca), 'seed': seed, 'case': i, 'kind': kind, 'edge': 'graph'})
                continue
            ga.optimize(tol=0.0, max_iter=2, verbose=False)
            gb.optimize(tol=0.0, max_iter=2, verbose=False)
            for va, vb in zip(ga._vertices, gb._vertices):
                if not (poses_close(np.array(va.pose), np.array(vb.pose), 1e-6 * (1 + float(np.abs(np.array(va.pose)).max())))
                        or (kind == 'SE2' and np.allclose(np.array(va.pose)[:2], np.array(vb.pose)[:2], atol=1e-6)
                            and abs(math.remainder(float(va.pose[2] - vb.pose[2]), 2 * math.pi)) < 1e-6)):
                    fails.append({'law': 'splitting edges of a .g2o file into identical half-information lines changes the optimization result', 'seed': seed, 'case': i,
                                  'kind': kind, 'edge': 'graph'})
                    break
        except Exception as ex:  # noqa
            fails.append({'law': 'g2o edge splitting raised %r' % (ex,), 'seed': seed, 'case': i, 'edge': 'graph'})
        finally:
            for p in (p1, p2):
                if os.path.exists(p):
                    os.remove(p)
    # relabelled ids (negative, sparse, beyond 2^53) THROUGH a .g2o file: same chi2, same optimization result
    bases_ = [1000, -1000, 2 ** 31, 2 ** 53, 2 ** 62, -(2 ** 60)]
    for i in range(max(len(bases_), n // 3)):          # every kind of id at least once per run, whatever the draw
        kind = ['SE2', 'SE3'][i % 2] if i < len(bases_) else rng.choice(['SE2', 'SE3'])
        g0, _ = oe.build_graph(rng, kind, nv=rng.randint(3, 6), landmarks=False, noise=0.02, pert=0.03, info_cross=False)
        p1 = os.path.join(tempfile.gettempdir(), 'verif_c08_%d_c.g2o' % os.getpid())
        p2 = os.path.join(tempfile.gettempdir(), 'verif_c08_%d_d.g2o' % os.getpid())
        try:
            g0.to_g2o(p1)
            grel = copy.deepcopy(g0)
            base_id = bases_[i] if i < len(bases_) else rng.choice(bases_)
            idmap = {v.id: base_id + (k + 1) * rng.choice([1, 1, 3]) for k, v in enumerate(grel._vertices)}
            if len(set(idmap.values())) < len(idmap):
                idmap = {v.id: base_id + k + 1 for k, v in enumerate(grel._vertices)}
            for v in grel._vertices:
                v.id = idmap[v.id]
            for e in grel._edges:
                e.vertex_ids = [idmap[x] for x in e.vertex_ids]
            Graph(grel._edges, grel._vertices).to_g2o(p2)
            ga, gb = Graph.from_g2o(p1), Graph.from_g2o(p2)
            evals += 1
            ca, cb = ga.calc_chi2(), gb.calc_chi2()
            if not abs(ca - cb) <= 1e-9 * (1 + abs(ca)):
                fails.append({'law': 'relabelling the vertex ids of a .g2o file (ids near %d) changes chi2: %r vs %r' % (base_id, cb, ca), 'seed': seed, 'case': i,
                              'kind': kind, 'edge': 'graph', 'ids': sorted(idmap.values())})
                continue
            ga.optimize(tol=0.0, max_iter=2, verbose=False)
            gb.optimize(tol=0.0, max_iter=2, verbose=False)
            pb = {v.id: np.array(v.pose) for v in gb._vertices}
            for va in ga._vertices:
                q = pb.get(idmap[va.id])
                if q is None or not (poses_close(np.array(va.pose), q, 1e-6 * (1 + float(np.abs(np.array(va.pose)).max())))
                                     or (kind == 'SE2' and np.allclose(np.array(va.pose)[:2], q[:2], atol=1e-6) and abs(math.remainder(float(va.pose[2] - q[2]), 2 * math.pi)) < 1e-6)):
                    fails.append({'law': 'relabelling the vertex ids of a .g2o file (ids near %d) changes the optimization result' % base_id, 'seed': seed, 'case': i,
                                  'kind': kind, 'edge': 'graph', 'ids': sorted(idmap.values())})
                    break
        except Exception as ex:  # noqa
            fails.append({'law': 'g2o relabelling raised %r' % (ex,), 'seed': seed, 'case': i, 'edge': 'graph'})
        finally:
            for p in (p1, p2):
                if os.path.exists(p):
                    os.remove(p)
    # the SAME records in another line order of the .g2o file: vertex lines keep their relative order, edge lines theirs, PARAMS lines stay first,
    # but edges are interleaved with the vertices (incremental loggers write an edge as soon as it is measured, possibly before the VERTEX line
    # of its second endpoint): same graph, same chi2, same optimization result
    for i in range(max(2, n // 3)):
        kind = rng.choice(['SE2', 'SE3'])
        g0, _ = oe.build_graph(rng, kind, nv=rng.randint(3, 6), landmarks=(kind == 'SE3'), noise=0.02, pert=0.03, info_cross=True)
        p1 = os.path.join(tempfile.gettempdir(), 'verif_c08_%d_e.g2o' % os.getpid())
        p2 = os.path.join(tempfile.gettempdir(), 'verif_c08_%d_f.g2o' % os.getpid())
        try:
            for k_, e in enumerate(g0._edges):
                if hasattr(e, 'offset_id'):
                    e.offset_id = 10 + k_          # one parameter record per observation
            g0.to_g2o(p1)
            lines = [l for l in open(p1).read().split('\n') if l.strip()]
            par = [l for l in lines if l.startswith('PARAMS')]
            ver = [l for l in lines if l.startswith('VERTEX')]
            edg = [l for l in lines if l.startswith('EDGE')]
            if len(par) + len(ver) + len(edg) != len(lines):
                continue
            merged, a_, b_ = [], 0, 0
            while a_ < len(ver) or b_ < len(edg):
                if b_ >= len(edg) or (a_ < len(ver) and rng.random() < 0.5):
                    merged.append(ver[a_]); a_ += 1
                else:
                    merged.append(edg[b_]); b_ += 1
            with open(p2, 'w') as f:
                f.write('\n'.join(par + merged) + '\n')
            ga, gb = Graph.from_g2o(p1), Graph.from_g2o(p2)
            evals += 1
            if len(ga._edges) != len(gb._edges) or len(ga._vertices) != len(gb._vertices):
                fails.append({'law': 'the same .g2o records with edge lines interleaved between the vertex lines load as %d vertices / %d edges instead of %d / %d'
                                     % (len(gb._vertices), len(gb._edges), len(ga._vertices), len(ga._edges)), 'seed': seed, 'case': i, 'kind': kind, 'edge': 'graph',
                              'file': '\n'.join(par + merged)[:1500]})
                continue
            ca, cb = ga.calc_chi2(), gb.calc_chi2()
            if not abs(ca - cb) <= 1e-9 * (1 + abs(ca)):
                fails.append({'law': 'interleaving edge and vertex lines of a .g2o file changes chi2: %r vs %r' % (cb, ca), 'seed': seed, 'case': i, 'kind': kind, 'edge': 'graph'})
                continue
            ga.optimize(tol=0.0, max_iter=2, verbose=False)
            gb.optimize(tol=0.0, max_iter=2, verbose=False)
            pb = {v.id: np.array(v.pose) for v in gb._vertices}
            for va in ga._vertices:
                q = pb.get(va.id)
                if q is None or not (poses_close(np.array(va.pose), q, 1e-6 * (1 + float(np.abs(np.array(va.pose)).max())))
                                     or (kind == 'SE2' and np.allclose(np.array(va.pose)[:2], q[:2], atol=1e-6) and abs(math.remainder(float(va.pose[2] - q[2]), 2 * math.pi)) < 1e-6)):
                    fails.append({'law': 'interleaving edge and vertex lines of a .g2o file changes the optimization result', 'seed': seed, 'case': i, 'kind': kind, 'edge': 'graph'})
                    break
        except Exception as ex:  # noqa
            fails.append({'law': 'g2o line interleaving raised %r' % (ex,), 'seed': seed, 'case': i, 'edge': 'graph'})
        finally:
            for p in (p1, p2):
                if os.path.exists(p):
                    os.remove(p)
    # the known finding, deterministic
    c1, c2 = sign_finding_example()
    evals += 1
    if abs(c1 - c2) > 1e-9:
        fails.append({'law': 'chi2 depends on the sign of a vertex quaternion when the information has a translation-rotation cross term',
                      'chi2': c1, 'chi2_negated': c2, 'edge': 'graph', 'finding_key': KNOWN_SIGN_KEY,
                      'input': 'vertex 1 quaternion (0.5,0.5,0.5,0.5) vs its negative; Omega = I6 with Omega[0,5] = Omega[5,0] = 0.5'})
    return evals, fails


# ------------------------------------------------------------------------------------------------
# C04: linear graphs vs an independent dense weighted least-squares solution
def linear_optimum(seed, n):
    rng = random.Random(seed)
    fails, evals = [], 0
    for i in range(n):
        kind = rng.choice(['R2', 'R3'])
        d = ce.DIM[kind]
        P = PoseR2 if kind == 'R2' else PoseR3
        nv = rng.randint(2, 30 if rng.random() < 0.2 else 9)
        far = rng.random() < 0.5
        sc = (1e6 if rng.random() < 0.7 else 10.0 ** rng.uniform(9, 10)) if far else rng.choice([5.0, 5.0, 1e4])
        aniso = rng.random() < 0.25          # information with eigenvalue ratio up to 1e8
        truth = [np.array([rng.gauss(0, 3) for _ in range(d)]) for _ in range(nv)]
        verts = [Vertex(rng.choice([-1, 1]) * (k + 1) * 13, P([rng.gauss(0, sc) for _ in range(d)])) for k in range(nv)]
        share = rng.random() < 0.3
        if share:      # a legal initial guess: every vertex starts from ONE pose object / one float64 array
            start = P([rng.gauss(0, sc) for _ in range(d)])
            arr = np.array([rng.gauss(0, sc) for _ in range(d)], dtype=np.float64)
            for k, v in enumerate(verts):
                v.pose = start if k % 2 == 0 else P(arr)
        ids = [v.id for v in verts]
        nfix = rng.randint(1, max(1, nv // 3))
        fixed_pos = rng.sample(range(nv), nfix)
        for k in fixed_pos:
            verts[k].fixed = True
            if far and rng.random() < 0.7:
                # the anchors sit at ordinary coordinates (so the optimum is of ordinary size); only the initial guess of the others is far away
                verts[k].pose = P([rng.gauss(0, 5.0) for _ in range(d)])
            if rng.random() < 0.4:
                # the anchor written as callers write it: the flag as third POSITIONAL argument, True / numpy.bool_ / 1
                verts[k] = Vertex(verts[k].id, verts[k].pose, rng.choice([True, np.bool_(True), 1]))
        intended_fixed = {verts[k].id for k in fixed_pos}
        # connected: random spanning tree + loops + multi-edges (both directions) + landmark edges with offsets
        pairs = [(rng.randrange(k), k) for k in range(1, nv)]
        for _ in range(rng.randint(0, nv)):
            a, b = rng.sample(range(nv), 2) if nv > 1 else (0, 0)
            if a != b:
                pairs.append((a, b))
        if pairs and rng.random() < 0.6:
            a, b = pairs[rng.randrange(len(pairs))]
            pairs.append((b, a))          # anti-parallel multi-edge
        es = []
        for (a, b) in pairs:
            Om = oe.rand_spd(rng, d, cond=10 ** (rng.uniform(6, 8) if aniso else rng.uniform(0, 4)))
            noise = np.array([rng.gauss(0, 0.3) for _ in range(d)])
            if rng.random() < 0.7:
                es.append(EdgeOdometry([ids[a], ids[b]], Om, P(list(truth[b] - truth[a] + noise))))
            else:
                off = np.array([rng.gauss(0, 1) for _ in range(d)])
                es.append(EdgeLandmark([ids[a], ids[b]], Om, P(list(truth[b] - truth[a] - off + noise)), offset=P(list(off)),
                                       offset_id=(0 if rng.random() < 0.5 else None)))       # the id is only a .g2o label: an offset needs none
        order = list(range(nv)); rng.shuffle(order)
        vlist = [verts[k] for k in order]
        rng.shuffle(es)
        oe.prebind(rng, es, vlist)
        g = Graph(es, vlist)
        # independent solution: minimise sum (A x - y)^T Om (A x - y) over the free coordinates
        pos = {v.id: k for k, v in enumerate(vlist)}
        N = d * nv
        rows, ys, Ws = [], [], []
        for e in es:
            a, b = pos[e.vertex_ids[0]], pos[e.vertex_ids[1]]
            A = np.zeros((d, N)); A[:, b * d:(b + 1) * d] = np.eye(d); A[:, a * d:(a + 1) * d] = -np.eye(d)
            if isinstance(e, EdgeLandmark):
                y = np.asarray(e.estimate) + np.asarray(e.offset)
            else:
                y = np.asarray(e.estimate)
            L = np.linalg.cholesky(np.asarray(e.information))
            rows.append(L.T @ A); ys.append(L.T @ y)
        A = np.vstack(rows); y = np.concatenate(ys)
        x0 = np.concatenate([np.asarray(v.pose) for v in vlist])
        # the anchors are the vertices the CALLER fixed, not whatever flag the library kept
        isfree = [v.id not in intended_fixed for v in vlist]
        free = np.concatenate([np.arange(k * d, (k + 1) * d) for k, fr in enumerate(isfree) if fr]) if any(isfree) else np.array([], dtype=int)
        fixed_idx = np.array([j for j in range(N) if j not in set(free.tolist())], dtype=int)
        xs = x0.copy()
        if len(free):
            rhs = y - A[:, fixed_idx] @ x0[fixed_idx]
            sol, *_ = np.linalg.lstsq(A[:, free], rhs, rcond=None)
            xs[free] = sol
        chi_opt = float(np.sum((A @ xs - y) ** 2))
        hist = prehistory(rng, g, 0.3)
        info_pow = rng.choice([0, 0, 0, -40, -50, 30])
        if info_pow:       # the optimum does not depend on a common scale of the information matrices; chi2 scales with it (exactly, for a power of two)
            for e in es:
                e.information = np.asarray(e.information, dtype=np.float64) * 2.0 ** info_pow
            chi_opt *= 2.0 ** info_pow
        try:
            res = g.optimize(tol=1e-10, max_iter=10, fix_first_pose=False, verbose=False)
        except Exception as ex:  # noqa
            fails.append({'law': 'optimize raised %r' % (ex,), 'seed': seed, 'case': i, 'edge': 'graph'})
            continue
        evals += 1
        got = np.concatenate([np.asarray(v.pose) for v in vlist])
        # accuracy is judged against the size of the OPTIMUM: the relative-decrease rule makes the optimizer take at least one more step after the
        # first, which removes the rounding error a solve from 1e6 units away leaves behind
        scale = (1.0 + np.abs(xs).max()) * (100.0 if aniso else 1.0) + (sc if far else 0.0) * 1e-11
        if not np.allclose(got, xs, rtol=0, atol=1e-6 * scale):
            fails.append({'law': 'optimize() does not return the weighted least-squares optimum of a linear graph', 'seed': seed, 'case': i,
                          'kind': kind, 'n_vertices': nv, 'n_edges': len(es), 'far_start': far, 'max_abs_diff': float(np.abs(got - xs).max()), 'edge': 'graph',
                          'information_scaled_by': '2^%d' % info_pow, 'history_of_the_graph_object': hist})
            continue
        if not abs(res.final_chi2 - chi_opt) <= (1e-6 * (1 + chi_opt / 2.0 ** info_pow) + 1e-9 * scale ** 2 * (1e-6 if far else 1)) * 2.0 ** info_pow:
            fails.append({'law': 'reported final_chi2 %r differs from the chi2 of the optimum %r' % (res.final_chi2, chi_opt), 'seed': seed, 'case': i, 'edge': 'graph'})
            continue
        if rng.random() < 0.35:
            # afterwards every point is pinned to surveyed coordinates (all vertices fixed, new positions): nothing is left to solve for; the
            # positions stay and the report is the chi2 of THAT state (not of anything evaluated earlier on this Graph object)
            xp = np.array([rng.gauss(0, 5.0) for _ in range(N)])
            for k, v in enumerate(vlist):
                v.pose = P(list(xp[k * d:(k + 1) * d]))
                v.fixed = True
            chi_pin = float(np.sum((A @ xp - y) ** 2)) * 2.0 ** info_pow
            try:
                res2 = g.optimize(tol=1e-10, max_iter=5, fix_first_pose=rng.random() < 0.5, verbose=False)
            except Exception as ex:  # noqa
                fails.append({'law': 'optimize of an all-fixed linear graph raised %r' % (ex,), 'seed': seed, 'case': i, 'edge': 'graph'})
                continue
            evals += 1
            got2 = np.concatenate([np.asarray(v.pose) for v in vlist])
            if not np.array_equal(got2, xp):
                fails.append({'law': 'an all-fixed linear graph moved', 'seed': seed, 'case': i, 'edge': 'graph', 'max_abs_diff': float(np.abs(got2 - xp).max())})
            elif not (abs(res2.initial_chi2 - chi_pin) <= 1e-9 * (1 + chi_pin) and abs(res2.final_chi2 - chi_pin) <= 1e-9 * (1 + chi_pin)
                      and abs(g.calc_chi2() - chi_pin) <= 1e-9 * (1 + chi_pin)):
                fails.append({'law': 'after pinning every point to new coordinates (all vertices fixed) optimize() reports initial_chi2 %r / final_chi2 %r, the chi2 of '
                                     'that state is %r (the graph object had been optimized before)' % (res2.initial_chi2, res2.final_chi2, chi_pin),
                              'seed': seed, 'case': i, 'edge': 'graph'})
    return evals, fails


# ------------------------------------------------------------------------------------------------
# C15: purity of queries under random interleavings, bitwise snapshots of every reachable array
def snapshot(g):
    out = []
    for v in g._vertices:
        out.append(('v', v.id, bool(v.fixed), type(v.pose).__name__, np.array(v.pose).tobytes()))
    for e in g._edges:
        est = e.estimate
        out.append(('e', type(e).__name__, tuple(e.vertex_ids), None if est is None else np.array(est).tobytes(),
                    np.array(e.information).tobytes(),
                    np.array(e.offset).tobytes() if getattr(e, 'offset', None) is not None else None, getattr(e, 'offset_id', None),
                    tuple(id(v) for v in (e.vertices or []))))
    return out


def purity(seed, n):
    import tempfile
    import os
    rng = random.Random(seed)
    fails, evals = [], 0
    for i in range(n):
        kind = rng.choice(['SE2', 'SE3', 'R2', 'R3'])
        share = rng.random() < 0.4
        g, _ = oe.build_graph(rng, kind, nv=rng.randint(3, 5), landmarks=True, noise=0.05, pert=0.05, info_cross=True)
        vs, es = g._vertices, list(g._edges)
        if kind == 'SE3':      # quaternions with negative scalar part, in vertices and measurements
            for v in vs:
                if isinstance(v.pose, PoseSE3) and rng.random() < 0.5:
                    v.pose = PoseSE3(v.pose[:3], -np.asarray(v.pose[3:]))
            for e in es:
                if isinstance(e.estimate, PoseSE3) and rng.random() < 0.5:
                    e.estimate = PoseSE3(e.estimate[:3], -np.asarray(e.estimate[3:]))
        if share and len(vs) >= 2:
            # objects shared between places (legal): a vertex initialised with the measurement object of an edge,
            # two vertices initialised from one array
            odo = [e for e in es if isinstance(e, EdgeOdometry)]
            if odo and type(odo[0].estimate) is type(vs[1].pose):
                vs[1].pose = odo[0].estimate
            if kind in ('R2', 'R3'):
                arr = np.array(vs[0].pose, dtype=np.float64)
                vs[0].pose = type(vs[0].pose)(arr)
                vs[-1].pose = type(vs[-1].pose)(arr) if type(vs[-1].pose) is type(vs[0].pose) else vs[-1].pose
        # a custom edge with numerical Jacobians
        if rng.random() < 0.6:
            from corr_graph import ScriptedEdge

            class NumEdge(ScriptedEdge):
                def __init__(self, vertex_ids, information):
                    BaseEdgeInit(self, vertex_ids, information)

                def calc_error(self):
                    a, b = np.asarray(self.vertices[0].pose), np.asarray(self.vertices[1].pose)
                    return np.array([float(np.sum((a[:2] - b[:2]) ** 2)) - 1.0])

                def calc_jacobians(self):
                    from graphslam.edge.base_edge import BaseEdge
                    return BaseEdge.calc_jacobians(self)
            a, b = rng.sample(range(len(vs)), 2)
            ne = NumEdge([vs[a].id, vs[b].id], np.eye(1))
            es.append(ne)
        if rng.random() < 0.35:
            # information matrices as callers produce them: the inverse of a covariance (mirror entries differ in the last bits), or only the
            # upper triangle filled in -- the API checks the shape, nothing else; whatever a query does with them, it may not store anything back
            for e in es:
                n_ = np.asarray(e.information).shape[0]
                if n_ < 2 or rng.random() < 0.4:
                    continue
                c_ = rng.random()
                if c_ < 0.4:
                    A_ = np.array([[rng.gauss(0, 1) for _ in range(n_)] for _ in range(n_)])
                    e.information = np.linalg.inv(A_ @ A_.T + 0.3 * np.eye(n_))
                elif c_ < 0.7:
                    e.information = np.triu(np.asarray(e.information, dtype=np.float64))
                else:
                    # a diagonal matrix whose zeros are negative zeros (the result of -1 * 0.0, of rounding a tiny negative covariance): the same numbers
                    D_ = np.diag([rng.uniform(0.5, 5.0) for _ in range(n_)])
                    D_[D_ == 0.0] = -0.0
                    e.information = D_
        seam_edge = None
        if kind == 'SE2' and rng.random() < 0.4:
            # one odometry edge whose angular error sits within 1e-6 of the +-pi seam (either side): a forward step of the numerical
            # differentiation crosses it.  Whatever the library does there, asking twice gives the same answer and nothing is stored
            odo_ = [e for e in es if isinstance(e, EdgeOdometry) and isinstance(e.estimate, PoseSE2)]
            if odo_:
                e = rng.choice(odo_)
                byid_ = {v.id: v for v in vs}
                t1_, t2_ = float(byid_[e.vertex_ids[0]].pose[2]), float(byid_[e.vertex_ids[1]].pose[2])
                e.estimate = PoseSE2(np.asarray(e.estimate)[:2], (t2_ - t1_) + rng.choice([-1, 1]) * (math.pi - rng.uniform(2e-7, 8e-7)))
                seam_edge = e
        for e in es:
            e.vertices = None
        g = Graph(es, vs)
        g._vertices[0].fixed = True
        snap0 = snapshot(g)
        last = {}
        if seam_edge is not None:
            try:
                evals += 1
                j1_ = [np.asarray(J).tobytes() for J in BaseEdge.calc_jacobians(seam_edge)]
                j2_ = [np.asarray(J).tobytes() for J in BaseEdge.calc_jacobians(seam_edge)]
                if j1_ != j2_ or snapshot(g) != snap0:
                    fails.append({'law': 'the numerical Jacobians of an SE(2) odometry edge whose angular error is within 1e-6 of the +-pi seam: asked twice at the '
                                         'same state, %s' % ('the answers differ bitwise' if j1_ != j2_ else 'the numeric state of the graph changed'),
                                  'seed': seed, 'case': i, 'kind': kind, 'edge': 'graph',
                                  'estimate': [float(x) for x in np.asarray(seam_edge.estimate)],
                                  'poses': [[float(x) for x in np.asarray(v.pose)] for v in seam_edge.vertices]})
                    continue
            except Exception as ex:  # noqa
                fails.append({'law': 'numerical Jacobians at the seam raised %r' % (ex,), 'seed': seed, 'case': i, 'edge': 'graph'})
                continue
        qs = ['chi2', 'edge_err', 'edge_chi2', 'edge_jac', 'edge_numjac', 'edge_numjac', 'edge_cgh', 'edge_cgh', 'graph_cgh', 'graph_cgh', 'equals', 'to_g2o', 'pose_ops', 'copy']
        ok = True
        for step in range(rng.randint(5, 50)):
            q = rng.choice(qs)
            try:
                if q == 'chi2':
                    val = float(g.calc_chi2())
                elif q == 'graph_cgh':
                    # the graph-level evaluation that optimize() performs at every iteration (it accumulates the edges' contributions): no pose moves,
                    # and what an edge returns afterwards for the same state must be what it returned before
                    g._calc_chi2_gradient_hessian()
                    val = (float(g._chi2), np.asarray(g._gradient).tobytes(), np.asarray(g._hessian.toarray()).tobytes())
                elif q == 'to_g2o':
                    p = os.path.join(tempfile.gettempdir(), 'verif_c15_%d.g2o' % os.getpid())
                    try:
                        g.to_g2o(p)
                        val = open(p).read()
                    except (NotImplementedError, ValueError) as ex:
                        val = type(ex).__name__
                    finally:
                        if os.path.exists(p):
                            os.remove(p)
                elif q == 'equals':
                    val = bool(g.equals(g)) and all(bool(e.equals(e)) for e in g._edges) and all(bool(v.equals(v)) for v in g._vertices)
                    # comparisons between DIFFERENT objects (a twin of the graph whose SE(2) angles sit on the other side of the +-pi cut, poses of
                    # different vertices, measurements of different edges): they read both arguments, they write neither
                    twin = copy.deepcopy(g)
                    for tv in twin._vertices:
                        if isinstance(tv.pose, PoseSE2):
                            np.ndarray.__setitem__(tv.pose, 2, -float(tv.pose[2]) if abs(float(tv.pose[2])) > 1.6 else float(tv.pose[2]) + 3.1)
                    tsnap = snapshot(twin)
                    val = [val, bool(g.equals(twin)), bool(twin.equals(g))]
                    va, vb = rng.choice(g._vertices), rng.choice(twin._vertices)
                    if type(va.pose) is type(vb.pose):
                        va.pose.equals(vb.pose)         # (a random pair: judged through the snapshots only, not as a repeated value)
                        vb.pose.equals(va.pose)
                    if snapshot(twin) != tsnap:
                        fails.append({'law': 'equals() changed the numeric state of its ARGUMENT (a graph / pose that was only compared against)', 'seed': seed, 'case': i,
                                      'kind': kind, 'step': step, 'edge': 'graph'})
                        ok = False
                        break
                    val = str(val)
                elif q == 'pose_ops':
                    v = rng.choice(g._vertices)
                    w = rng.choice(g._vertices)
                    val = [np.array(v.pose.copy()).tobytes(), np.array(v.pose.inverse).tobytes(), np.array(v.pose.to_array()).tobytes(), np.array(v.pose.to_compact()).tobytes()]
                    if type(v.pose) is type(w.pose):
                        val += [np.array(v.pose + w.pose).tobytes(), np.array(v.pose - w.pose).tobytes()]
                        val += [np.asarray(v.pose.jacobian_self_oplus_other_wrt_self(w.pose)).tobytes()]
                    # pose [+] increment and += with a caller-owned increment array (also a view into a larger step vector, also a rotation
                    # increment of norm > 1): the operator must not write into its right operand
                    dim_c = v.pose.COMPACT_DIMENSIONALITY
                    big_step = np.array([rng.gauss(0, 0.3) for _ in range(dim_c + 4)])
                    d_inc = big_step[2:2 + dim_c]
                    if isinstance(v.pose, PoseSE3) and rng.random() < 0.5:
                        d_inc[3:] = np.array([0.8, -0.7, 0.6]) * rng.choice([1.0, 1.5])
                    keep = big_step.copy()
                    r1 = v.pose + d_inc
                    tmp_pose = v.pose.copy()
                    tmp_pose += d_inc
                    if big_step.tobytes() != keep.tobytes():
                        fails.append({'law': 'pose [+] increment wrote into its right operand: the caller\'s increment array changed from %s to %s'
                                             % (keep[2:2 + dim_c].tolist(), d_inc.tolist()), 'seed': seed, 'case': i, 'kind': kind, 'pose': np.array(v.pose).tolist(), 'edge': 'graph'})
                        ok = False
                        break
                    q = 'pose_ops_%d_%d' % (g._vertices.index(v), g._vertices.index(w))
                elif q == 'copy':
                    v = rng.choice(g._vertices)
                    c = v.pose.copy()
                    c[0] = c[0] + 1.0     # copies are independent
                    val = np.array(v.pose).tobytes()
                    q = 'copy_%d' % g._vertices.index(v)
                else:
                    k = rng.randrange(len(g._edges))
                    e = g._edges[k]
                    if q == 'edge_err':
                        val = np.asarray(e.calc_error()).tobytes()
                    elif q == 'edge_chi2':
                        val = float(e.calc_chi2())
                    elif q == 'edge_jac':
                        val = [np.asarray(J).tobytes() for J in e.calc_jacobians()]
                    elif q == 'edge_numjac':
                        # the numerical Jacobians every edge type inherits (what an error-only user edge gets), asked of any edge
                        val = [np.asarray(J).tobytes() for J in BaseEdge.calc_jacobians(e)]
                    else:
                        c, gr, he = e.calc_chi2_gradient_hessian()
                        val = [float(c)] + [np.asarray(x[1]).tobytes() for x in gr] + [np.asarray(x[1]).tobytes() for x in he]
                    q = '%s_%d' % (q, k)
            except Exception as ex:  # noqa
                fails.append({'law': 'query %s raised %r' % (q, ex), 'seed': seed, 'case': i, 'edge': 'graph'})
                ok = False
                break
            evals += 1
            if snapshot(g) != snap0:
                fails.append({'law': 'query %s changed the numeric state of the graph' % q, 'seed': seed, 'case': i, 'kind': kind, 'step': step,
                              'shared_objects': share, 'edge': 'graph'})
                ok = False
                break
            if q in last and last[q] != val:
                fails.append({'law': 'repeated query %s returned a different value' % q, 'seed': seed, 'case': i, 'kind': kind, 'step': step, 'edge': 'graph'})
                ok = False
                break
            last[q] = val
        if not ok:
            continue
        # optimize(): only vertex poses (and the first vertex's fixed flag) may change
        ffp = rng.random() < 0.5
        lonely = rng.random() < 0.25
        # whatever was queried above, optimizing THIS graph object gives bitwise what optimizing a copy that has no history gives
        fresh_twin = None
        if not lonely and not share:
            try:
                es_t = [copy.copy(e) for e in g._edges]
                vs_t = [Vertex(v.id, v.pose.copy(), fixed=bool(v.fixed)) for v in g._vertices]
                for e in es_t:
                    e.vertices = None
                fresh_twin = Graph(es_t, vs_t)
            except Exception:  # noqa
                fresh_twin = None
        if lonely:
            # a vertex no edge refers to (an unobserved landmark): whatever that does to the solve, optimize() may only touch vertex poses
            extra_v = Vertex(10 ** 7 + i, g._vertices[-1].pose.copy())
            es_l = list(g._edges)
            for e in es_l:
                e.vertices = None
            g = Graph(es_l, list(g._vertices) + [extra_v])
        edge_part0 = [s for s in snapshot(g) if s[0] == 'e']
        fixed0 = [s for s in snapshot(g) if s[0] == 'v' and s[2]]
        flags0 = [bool(v.fixed) for v in g._vertices]
        try:
            with warnings.catch_warnings():
                warnings.simplefilter('ignore')
                if lonely:
                    g.optimize(tol=rng.choice([1e-4, 1e-8]), max_iter=20, fix_first_pose=ffp, verbose=False)
                else:
                    n_it = rng.randint(1, 4)
                    g.optimize(tol=1e-9, max_iter=n_it, fix_first_pose=ffp, verbose=False)
                    if fresh_twin is not None:
                        fresh_twin.optimize(tol=1e-9, max_iter=n_it, fix_first_pose=ffp, verbose=False)
                        a_ = [np.array(v.pose).tobytes() for v in g._vertices]
                        b_ = [np.array(v.pose).tobytes() for v in fresh_twin._vertices]
                        if a_ != b_ and all(np.all(np.isfinite(np.array(v.pose))) for v in fresh_twin._vertices):
                            fails.append({'law': 'optimize() on a graph object that had been queried before (chi2 / gradient / Hessian evaluations, comparisons, exports) '
                                                 'ends in different poses than optimize() on a freshly built copy of the same state', 'seed': seed, 'case': i, 'kind': kind,
                                          'edge': 'graph'})
                            continue
        except Exception as ex:  # noqa
            continue
        evals += 1
        if [s for s in snapshot(g) if s[0] == 'e'] != edge_part0:
            fails.append({'law': 'optimize() changed a measurement, information matrix, offset or edge binding', 'seed': seed, 'case': i, 'kind': kind,
                          'shared_objects': share, 'edge': 'graph'})
            continue
        want = list(flags0)
        if ffp:
            want[0] = True
        if [bool(v.fixed) for v in g._vertices] != want:
            fails.append({'law': 'optimize() changed fixed flags other than the first vertex', 'seed': seed, 'case': i, 'edge': 'graph'})
            continue
        now = {(s[1]): s for s in snapshot(g) if s[0] == 'v'}
        for s in fixed0:
            if now[s[1]][4] != s[4]:
                fails.append({'law': 'optimize() moved a fixed vertex', 'seed': seed, 'case': i, 'kind': kind, 'shared_objects': share, 'edge': 'graph'})
                break
    return evals, fails


def BaseEdgeInit(self, vertex_ids, information):
    from graphslam.edge.base_edge import BaseEdge
    BaseEdge.__init__(self, vertex_ids, information, 1.0)


# ------------------------------------------------------------------------------------------------
# C05: local convergence soak (a TEST: calibrated neighbourhood, see DESIGN.md)
C05_BOUNDS = {'noise_t': 0.02, 'pert_t': 0.1}     # rotational noise / perturbation are half / a quarter of these (oracle_edges.build_graph)


def local_convergence(seed, n, scale=1.0):
    rng = random.Random(seed)
    fails, evals = [], 0
    for i in range(n):
        # the first two cases of every run: a noise-free SE(3) survey WITH landmark observations that arrives as a .g2o file in the standard layout
        # (independent writer) -- so that this entry point does not depend on the draw
        forced = i < 2
        kind = 'SE3' if forced else rng.choice(['SE2', 'SE3'])
        nv = rng.randint(3, 40 if rng.random() < 0.15 else 12)
        noise_free = forced or rng.random() < 0.3
        noise = 1e-10 if noise_free else rng.uniform(0, C05_BOUNDS['noise_t'] * scale)
        pert = rng.uniform(0, C05_BOUNDS['pert_t'] * scale)
        g, truth = oe.build_graph(rng, kind, nv=nv, landmarks=True, noise=max(noise, 1e-12), pert=pert, info_cross=True)
        for _try in range(20):
            if not forced or any(isinstance(e, EdgeLandmark) for e in g._edges):
                break
            g, truth = oe.build_graph(rng, kind, nv=nv, landmarks=True, noise=max(noise, 1e-12), pert=pert, info_cross=True)
        tol = 10 ** rng.uniform(-10, -7) if forced else 10 ** rng.uniform(-10, -3)
        reuse = (not forced) and rng.random() < 0.25
        if reuse:
            # ordinary usage: the same edge objects first served a graph over the ground-truth vertices (e.g. to look
            # at its chi2), then the graph that is optimized is built from them and the perturbed vertices
            tv = copy.deepcopy(list(g._vertices))
            for k, v in enumerate(tv):
                if k < len(truth):
                    v.pose = copy.deepcopy(truth[k])
            fresh = []
            for e in g._edges:      # edges as the user constructs them: vertex ids only, no Vertex objects yet
                e2 = copy.copy(e)
                e2.vertices = None
                fresh.append(e2)
            Graph(fresh, tv).calc_chi2()
            g = Graph(fresh, list(g._vertices))
        prehistory(rng, g, 0.2)
        if kind == 'SE3' and (forced or rng.random() < 0.25) and all(isinstance(e, (EdgeOdometry, EdgeLandmark)) for e in g._edges):
            # the same problem arriving as a .g2o file in the standard layout (written here, not by the library), loaded by Graph.from_g2o
            import tempfile
            import os
            pth = os.path.join(tempfile.gettempdir(), 'verif_c05_%d.g2o' % os.getpid())
            try:
                with open(pth, 'w') as fh:
                    fh.write(g2o_text(g))
                g = Graph.from_g2o(pth)
            finally:
                if os.path.exists(pth):
                    os.remove(pth)
        if rng.random() < 0.2:
            # "pose 0 is the origin, so pose 1 starts at the first odometry measurement": a vertex whose initial pose IS the estimate object of an
            # edge leaving the first vertex (only when that guess is inside the neighbourhood, i.e. the first vertex is close to the identity)
            g = oe.transform_graph(g, g._vertices[0].pose.inverse, kind)       # same problem seen from the first pose (C07)
            v0 = g._vertices[0]
            ident = type(v0.pose).identity()
            if float(np.abs(np.asarray(v0.pose) - np.asarray(ident)).max()) < 1e-9 or (kind == 'SE3' and float(np.abs(np.asarray(v0.pose) + np.asarray(ident))[3:].max()) < 1e-9):
                for e in g._edges:
                    if isinstance(e, EdgeOdometry) and e.vertex_ids[0] == v0.id and type(e.estimate) is type(v0.pose):
                        [w for w in g._vertices if w.id == e.vertex_ids[1]][0].pose = e.estimate
                        break
        anchored = beacon = False
        if (not forced) and rng.random() < 0.25:
            # anchors chosen through a mask: the flag is a numpy.bool_ (or the integer 1)
            k_a = rng.randrange(1, nv)
            g._vertices[k_a].fixed = rng.choice([np.bool_(True), 1])       # anchored where it currently is
            noise_free = False
            anchored = True
        lms_ = [v for v in g._vertices if isinstance(v.pose, (PoseR2, PoseR3))]
        if kind in ('SE2', 'SE3') and lms_ and not anchored and (not forced) and rng.random() < 0.3:
            # a surveyed beacon: one landmark is held where it currently is (a fixed vertex narrower than a pose, anywhere in the list).  ONE vertex
            # held at a perturbed place keeps the problem inside the calibrated neighbourhood; several of them (this, the anchor above, the staged
            # anchor below) add up to an inconsistency on which un-damped Gauss-Newton may cycle -- outside the claim
            rng.choice(lms_).fixed = True
            noise_free = False
            beacon = True
        info_pow = rng.choice([0, 0, 0, 0, -30, -40])
        if info_pow:
            for e in g._edges:
                e.information = np.asarray(e.information, dtype=np.float64) * 2.0 ** info_pow
        c0 = _independent_view(g).calc_chi2()
        staged = (not reuse) and (not beacon) and (not forced) and rng.random() < 0.2
        try:
            if staged:
                # two-stage use of ONE Graph object: one iteration, then another pose is anchored where it is, then the run to convergence
                g.optimize(tol=0.0, max_iter=1, verbose=False)
                cand = [v for v in g._vertices[1:nv] if not v.fixed]
                if cand:
                    rng.choice(cand).fixed = True
                noise_free = False       # the anchored pose is not at its true place: ground truth is no longer the optimum
            res = g.optimize(tol=tol, max_iter=50, verbose=False)
        except Exception as ex:  # noqa
            fails.append({'law': 'optimize raised %r' % (ex,), 'seed': seed, 'case': i, 'edge': 'graph'})
            continue
        evals += 1
        g = _independent_view(g)
        c1 = g.calc_chi2()
        isc = 2.0 ** info_pow          # absolute floors scale with the information
        if not c1 <= c0 * (1 + 1e-12) + 1e-18 * isc:
            fails.append({'law': 'final chi2 %r exceeds initial chi2 %r' % (c1, c0), 'seed': seed, 'case': i, 'kind': kind, 'edge': 'graph'})
            continue
        H, b, off = dense_system(g)
        try:
            dec = float(b @ np.linalg.solve(H, b))
        except np.linalg.LinAlgError:
            continue
        if not dec <= 10.0 * tol * (c1 + 1e-9 * isc) + 1e-12 * isc:
            fails.append({'law': 'Newton decrement %g of the independent model exceeds 10*tol*chi2 = %g' % (dec, 10 * tol * c1), 'seed': seed, 'case': i,
                          'kind': kind, 'nv': nv, 'tol': tol, 'chi2': c1, 'edge': 'graph'})
            continue
        if len(g._vertices) <= 14 and all(isinstance(e, (EdgeOdometry, EdgeLandmark)) for e in g._edges):
            # the same decrement with a gradient that owes nothing to the library's Jacobians: b_num = sum J_num^T Omega e with central-difference
            # Jacobians of calc_error through the boxplus (error of the difference quotient ~1e-9 relative)
            b_num = np.zeros_like(b)
            pos_ = {id(v): k for k, v in enumerate(g._vertices)}
            for e in g._edges:
                err_ = np.asarray(e.calc_error(), dtype=np.float64).reshape(-1)
                w_ = np.asarray(e.information, dtype=np.float64) @ err_
                for Jn, v in zip(oe.num_jacobians(e), e.vertices):
                    k = pos_[id(v)]
                    if not v.fixed:
                        b_num[off[k]:off[k + 1]] += Jn.T @ w_
            try:
                dec_num = float(b_num @ np.linalg.solve(H, b_num))
            except np.linalg.LinAlgError:
                dec_num = 0.0
            floor_ = 1e-14 * (float(np.abs(b_num).max()) ** 2 + float(np.abs(H).max()) * 1e-6) / max(float(np.abs(np.diag(H)).min()), 1e-300)
            if np.isfinite(dec_num) and not dec_num <= 100.0 * tol * (c1 + 1e-9 * isc) + 1e-10 * isc + floor_ + 1e-6 * c1:
                fails.append({'law': 'at the state optimize() returned, the Newton decrement computed from NUMERICAL Jacobians of the error functions is %g '
                                     '(chi2 %g, tol %g): the optimizer stopped away from a stationary point of chi2' % (dec_num, c1, tol), 'seed': seed, 'case': i,
                              'kind': kind, 'nv': nv, 'tol': tol, 'chi2': c1, 'edge': 'graph'})
                continue
        if noise_free and tol <= 1e-6 and not c1 <= max(1e-6 * c0, 1e-13 * isc):
            fails.append({'law': 'noise-free problem (every measurement consistent with one ground truth): final chi2 %r, initial %r -- the optimizer did not reach '
                                 'the consistent configuration' % (c1, c0), 'seed': seed, 'case': i, 'kind': kind, 'edge': 'graph'})
            continue
        if noise_free and tol <= 1e-6:
            # relative poses reproduce the ground truth
            vs = g._vertices
            for a in range(min(nv, len(vs)) - 1):
                rel = vs[a + 1].pose - vs[a].pose if kind in ('SE2', 'SE3') else None
                ref = truth[a + 1] - truth[a]
                if not poses_close(ref, rel, 1e-5) and not (kind == 'SE2' and np.allclose(np.asarray(ref)[:2], np.asarray(rel)[:2], atol=1e-5)
                                                           and abs(math.remainder(float(ref[2] - rel[2]), 2 * math.pi)) < 1e-5):
                    fails.append({'law': 'noise-free problem: optimized relative pose differs from the ground truth', 'seed': seed, 'case': i, 'kind': kind,
                                  'pair': a, 'expected': np.asarray(ref).tolist(), 'got': np.asarray(rel).tolist(), 'edge': 'graph'})
                    break
    return evals, fails


# ------------------------------------------------------------------------------------------------
# C12 (extra oracle): the report after sequences that leave private caches of the Graph stale
def stale_cache_sequences(seed, n):
    rng = random.Random(seed)
    fails, evals = [], 0
    for i in range(n):
        kind = rng.choice(['SE2', 'SE3', 'R2', 'R3'])
        g, _ = oe.build_graph(rng, kind, nv=rng.randint(3, 5), landmarks=True, noise=0.05, pert=0.05)
        seq = rng.choice(['chi2_then_edit', 'optimize_then_edit', 'two_graphs'])
        try:
            if seq == 'chi2_then_edit':
                g.calc_chi2()
            elif seq == 'optimize_then_edit':
                g.optimize(tol=0.0, max_iter=1, verbose=False)
            else:
                g2 = Graph(list(g._edges), list(g._vertices))
                g2.calc_chi2()
            how = rng.choice(['rebind', 'in_place', 'in_place'])
            for v in g._vertices[1:]:
                d = np.array([rng.gauss(0, .2) for _ in range(v.pose.COMPACT_DIMENSIONALITY)])
                if how == 'rebind':
                    v.pose = v.pose + d
                else:        # the caller edits the numbers of the SAME pose object (poses are arrays): v.pose[0] += 0.5, v.pose[:] = ..., v.pose.normalize()
                    np.ndarray.__setitem__(v.pose, slice(None), np.asarray(v.pose + d, dtype=np.float64))
                    if isinstance(v.pose, PoseSE3) and rng.random() < 0.3:
                        np.ndarray.__setitem__(v.pose, slice(3, 7), np.asarray(v.pose)[3:] * 1.0002)
                        v.pose.normalize()
            frozen = None
            if seq == 'optimize_then_edit' and rng.random() < 0.4:
                cand = [k for k, v in enumerate(g._vertices) if k > 0 and not v.fixed]
                if len(cand) >= 2:
                    frozen = rng.choice(cand)
                    g._vertices[frozen].fixed = True          # a vertex that was free in the earlier call is held from now on
            seq = '%s/%s%s' % (seq, how, '/freeze' if frozen is not None else '')
            ref = fresh_graph(g)           # newly constructed vertices and edges holding the same numbers: a graph without a past
            c_now = ref.calc_chi2()
            iters = rng.randint(1, 3)
            res = g.optimize(tol=0.0, max_iter=iters, verbose=False)
            evals += 1
            if res.initial_chi2 != c_now:
                fails.append({'law': 'initial_chi2 %r is not the chi2 %r of the state optimize() started from (sequence %s)' % (res.initial_chi2, c_now, seq),
                              'seed': seed, 'case': i, 'kind': kind, 'edge': 'graph'})
                continue
            if res.final_chi2 != fresh_graph(g).calc_chi2():
                fails.append({'law': 'final_chi2 differs from calc_chi2() of the returned graph (sequence %s)' % seq, 'seed': seed, 'case': i, 'edge': 'graph'})
                continue
            # no hidden state: the graph with a past and the graph without one take the same steps
            res_ref = ref.optimize(tol=0.0, max_iter=iters, verbose=False)
            c1 = [it.chi2 for it in res.iteration_results if it.chi2 is not None]
            c2 = [it.chi2 for it in res_ref.iteration_results if it.chi2 is not None]
            okc = len(c1) == len(c2) and all(abs(a - b) <= 1e-7 * (1 + abs(b)) or not (np.isfinite(a) and np.isfinite(b)) for a, b in zip(c1, c2))
            okp = all(poses_close(np.array(v1.pose), np.array(v2.pose), 1e-6 * (1 + float(np.abs(np.array(v2.pose)).max()))) or not np.all(np.isfinite(np.array(v2.pose)))
                      for v1, v2 in zip(g._vertices, ref._vertices))
            if np.isfinite(res_ref.final_chi2) and res_ref.final_chi2 < 1e6 * (1 + c_now) and not (okc and okp):
                fails.append({'law': 'a Graph object with a history (sequence %s) does not take the steps of a newly built graph holding the same poses, flags and '
                                     'measurements: per-iteration chi2 %s vs %s' % (seq, c1, c2), 'seed': seed, 'case': i, 'kind': kind, 'edge': 'graph'})
        except Exception as ex:  # noqa
            fails.append({'law': 'sequence %s raised %r' % (seq, ex), 'seed': seed, 'case': i, 'edge': 'graph'})
    # a user edge type whose chi2 is not the plain quadratic form (it overrides calc_chi2): the graph's chi2 is the sum of what the edges' calc_chi2()
    # return, in the report exactly as in Graph.calc_chi2()
    class RobustOdometry(EdgeOdometry):
        def calc_chi2(self):
            q = float(EdgeOdometry.calc_chi2(self))
            return q if q <= 1.0 else 2.0 * math.sqrt(q) - 1.0
    for i in range(max(2, n // 5)):
        kind = rng.choice(['SE2', 'R2'])
        g, _ = oe.build_graph(rng, kind, nv=rng.randint(3, 5), landmarks=False, noise=0.3, pert=0.3)
        es = list(g._edges)
        k_ = rng.randrange(len(es))
        es[k_] = RobustOdometry(list(es[k_].vertex_ids), es[k_].information, es[k_].estimate)
        for e in es:
            e.vertices = None
        g = Graph(es, g._vertices)
        try:
            c_now = copy.deepcopy(g).calc_chi2()
            res = g.optimize(tol=0.0, max_iter=rng.randint(1, 3), verbose=False)
            evals += 1
            if res.initial_chi2 != c_now:
                fails.append({'law': 'a graph with an edge type overriding calc_chi2(): initial_chi2 %r is not calc_chi2() %r of the starting state' % (res.initial_chi2, c_now),
                              'seed': seed, 'case': i, 'kind': kind, 'edge': 'graph'})
                continue
            if res.final_chi2 != copy.deepcopy(g).calc_chi2():
                fails.append({'law': 'a graph with an edge type overriding calc_chi2(): final_chi2 differs from calc_chi2() of the returned graph', 'seed': seed, 'case': i, 'edge': 'graph'})
        except Exception as ex:  # noqa
            fails.append({'law': 'robust-edge graph raised %r' % (ex,), 'seed': seed, 'case': i, 'edge': 'graph'})
    # states where the Gauss-Newton step is exactly zero (every vertex fixed; or an exactly consistent integer graph): the documented rule decides, not the step
    import corr_optloop as _co
    for i in range(max(2, n // 5)):
        mode = rng.choice(['all_fixed', 'exact'])
        if mode == 'all_fixed':
            g, _ = oe.build_graph(rng, rng.choice(['SE2', 'R2', 'SE3']), nv=rng.randint(3, 4), landmarks=False, noise=0.2, pert=0.2)
            for v in g._vertices:
                v.fixed = True
        else:
            vs_ = [Vertex(k, PoseSE2([float(k), 0.0], 0.0)) for k in range(4)]
            es_ = [EdgeOdometry([k, k + 1], np.eye(3), PoseSE2([1.0, 0.0], 0.0)) for k in range(3)]
            g = Graph(es_, vs_)
        try:
            c = float(copy.deepcopy(g).calc_chi2())
            for tl in (0.0, 1e-6):
                for mi in (1, 2, 5):
                    g2 = copy.deepcopy(g)
                    res = g2.optimize(tol=tl, max_iter=mi, verbose=False)
                    evals += 1
                    exp = _co.expected_from_sequence([c] * (mi + 2), tl, mi)
                    got = (bool(res.converged), res.num_iterations, len(res.iteration_results))
                    want = (exp['converged'], exp['num_iterations'], len(exp['iters']))
                    if got != want:
                        fails.append({'law': '%s graph (the solved step is exactly zero, chi2 constant %r): tol=%g max_iter=%d reports (converged, num_iterations, entries) = %s, '
                                             'the documented rule gives %s' % (mode, c, tl, mi, got, want), 'seed': seed, 'case': i, 'edge': 'graph'})
                        raise StopIteration
        except StopIteration:
            pass
        except Exception as ex:  # noqa
            fails.append({'law': 'zero-step graph raised %r' % (ex,), 'seed': seed, 'case': i, 'edge': 'graph'})
    return evals, fails
