"""oracle_graph.py -- direct oracles on the implementation for the graph-level properties (C03, C04, C06,
C08): independent dense numpy normal equations, reduced problems, metamorphic transformations.
They are tests whose purpose is to produce concrete replays."""
import copy
import math
import random
import warnings

import numpy as np

import corr_poses as cp
import corr_edges as ce
import oracle_edges as oe
from corr_graph import ScriptedEdge

from graphslam.graph import Graph
from graphslam.vertex import Vertex
from graphslam.edge.edge_odometry import EdgeOdometry
from graphslam.edge.edge_landmark import EdgeLandmark
from graphslam.pose.r2 import PoseR2
from graphslam.pose.r3 import PoseR3
from graphslam.pose.se2 import PoseSE2
from graphslam.pose.se3 import PoseSE3

warnings.simplefilter('ignore')


def dense_system(g):
    """independent assembly of the Gauss-Newton system from the edges' own errors and Jacobians"""
    vs = g._vertices
    dims = [v.pose.COMPACT_DIMENSIONALITY for v in vs]
    off = np.concatenate([[0], np.cumsum(dims)]).astype(int)
    N = int(off[-1])
    pos = {id(v): k for k, v in enumerate(vs)}
    b = np.zeros(N)
    H = np.zeros((N, N))
    for e in g._edges:
        err = np.asarray(e.calc_error(), dtype=np.float64).reshape(-1)
        Js = [np.asarray(J, dtype=np.float64) for J in e.calc_jacobians()]
        Om = np.asarray(e.information, dtype=np.float64)
        ks = [pos[id(v)] for v in e.vertices]
        for s, k in enumerate(ks):
            b[off[k]:off[k + 1]] += Js[s].T @ Om @ err
            for t, l in enumerate(ks):
                H[off[k]:off[k + 1], off[l]:off[l + 1]] += Js[s].T @ Om @ Js[t]
    for k, v in enumerate(vs):
        if v.fixed:
            b[off[k]:off[k + 1]] = 0
            H[off[k]:off[k + 1], :] = 0
            H[:, off[k]:off[k + 1]] = 0
            H[off[k]:off[k + 1], off[k]:off[k + 1]] = np.eye(dims[k])
    return H, b, off


def poses_close(a, b, atol):
    a, b = np.asarray(a, dtype=np.float64), np.asarray(b, dtype=np.float64)
    if len(a) == 7 and np.dot(a[3:], b[3:]) < 0:
        b = np.concatenate([b[:3], -b[3:]])
    if isinstance(a, np.ndarray) and len(a) == 3 and False:
        pass
    return np.allclose(a, b, rtol=0, atol=atol)


def mixed_graph(rng, with_custom=True, fixed_mode='first'):
    """well-posed graph over one pose kind + its point kind, odometry chain, loop closure, landmarks, optional custom edges"""
    kind = rng.choice(['SE2', 'SE3', 'R2', 'R3'])
    g, truth = oe.build_graph(rng, kind, nv=rng.randint(3, 6), landmarks=True, noise=0.02, pert=0.03)
    vs, es = g._vertices, list(g._edges)
    if with_custom and rng.random() < 0.7:
        # a unary prior on a random vertex and (when possible) a ternary constraint, with integer Jacobians
        for ns in (1, 3):
            if len(vs) < ns or rng.random() < 0.3:
                continue
            sel = rng.sample(range(len(vs)), ns)
            m = rng.randint(1, 3)
            A = np.array([[rng.gauss(0, 1) for _ in range(m)] for _ in range(m)])
            om = A @ A.T + np.eye(m)
            jacs = [[[rng.gauss(0, 1) for _ in range(vs[s].pose.COMPACT_DIMENSIONALITY)] for _ in range(m)] for s in sel]
            es.append(ScriptedEdge([vs[s].id for s in sel], om, [rng.gauss(0, .05) for _ in range(m)], jacs))
    # shuffle the vertex list, random (negative / huge) ids
    order = list(range(len(vs)))
    rng.shuffle(order)
    vs2 = [vs[i] for i in order]
    if rng.random() < 0.5:
        remap = {}
        for v in vs2:
            remap[v.id] = rng.choice([-1, 1]) * rng.randint(1, 2 ** 61) if rng.random() < 0.5 else rng.randint(-50, 50) * 7 + len(remap) * 1000
        for e in es:
            e.vertex_ids = [remap[i] for i in e.vertex_ids]
        for v in vs2:
            v.id = remap[v.id]
    rng.shuffle(es)
    for e in es:
        e.vertices = None
    g2 = Graph(es, vs2)
    if fixed_mode == 'first':
        ffp = True
    else:
        ffp = False
        pose_vs = [v for v in vs2 if not isinstance(v.pose, (PoseR2, PoseR3)) or kind in ('R2', 'R3')]
        for v in rng.sample(pose_vs, rng.randint(1, max(1, len(pose_vs) // 2))):
            v.fixed = True
    return g2, kind, ffp


def gauss_newton_step(seed, n):
    """C03: poses after optimize(max_iter=1) == pose [+] slices of the dense solution of H dx = -b"""
    rng = random.Random(seed)
    fails, evals = [], 0
    for i in range(n):
        g, kind, ffp = mixed_graph(rng, fixed_mode=rng.choice(['first', 'some']))
        if ffp:
            g._vertices[0].fixed = True
        H, b, off = dense_system(g)
        try:
            if np.linalg.cond(H) > 1e10:
                continue
            dx = np.linalg.solve(H, -b)
        except np.linalg.LinAlgError:
            continue
        expected = []
        for k, v in enumerate(g._vertices):
            expected.append(np.array(v.pose) if v.fixed else np.array(v.pose + dx[off[k]:off[k + 1]]))
        try:
            g.optimize(tol=0.0, max_iter=1, fix_first_pose=ffp, verbose=False)
        except Exception as ex:  # noqa
            fails.append({'law': 'optimize raised %r' % (ex,), 'seed': seed, 'case': i, 'edge': 'graph'})
            continue
        evals += 1
        sc = 1.0 + max(float(np.abs(e).max()) for e in expected)
        for k, v in enumerate(g._vertices):
            if not poses_close(expected[k], v.pose, 1e-7 * sc):
                fails.append({'law': 'pose after one iteration differs from pose [+] (-H^-1 b) computed by independent dense normal equations',
                              'seed': seed, 'case': i, 'kind': kind, 'vertex_position': k, 'expected': expected[k].tolist(),
                              'got': np.array(v.pose).tolist(), 'edge': 'graph', 'n_vertices': len(g._vertices), 'n_edges': len(g._edges)})
                break
    return evals, fails


def fixed_vertices(seed, n):
    """C06: fixed vertices never move (also singular / diverging runs), fix_first_pose semantics, reduced problem"""
    rng = random.Random(seed)
    fails, evals = [], 0
    for i in range(n):
        mode = rng.choice(['wellposed', 'wellposed', 'isolated_fixed', 'underconstrained', 'all_fixed', 'diverge'])
        g, kind, ffp = mixed_graph(rng, with_custom=rng.random() < 0.5, fixed_mode=rng.choice(['first', 'some']))
        vs = g._vertices
        if mode == 'isolated_fixed':
            P = type(vs[0].pose)
            extra = Vertex(10 ** 9 + i, vs[0].pose.copy(), fixed=True)
            g = Graph(g._edges, vs + [extra])
            vs = g._vertices
        elif mode == 'underconstrained':
            g = Graph(g._edges[:max(1, len(g._edges) // 3)], vs)
        elif mode == 'all_fixed':
            for v in vs:
                v.fixed = True
        elif mode == 'diverge':
            for v in vs[1:]:
                if not v.fixed and isinstance(v.pose, (PoseSE2, PoseSE3)):
                    d = np.zeros(v.pose.COMPACT_DIMENSIONALITY); d[-1] = 0.9
                    v.pose = v.pose + d
        flags0 = [bool(v.fixed) for v in vs]
        before = [np.array(v.pose).copy() for v in vs]
        iters = rng.randint(1, 20)
        H, b, off = dense_system(g) if mode == 'wellposed' else (None, None, None)
        try:
            g.optimize(tol=0.0, max_iter=iters, fix_first_pose=ffp, verbose=False)
        except Exception as ex:  # noqa
            fails.append({'law': 'optimize raised %r (mode %s)' % (ex, mode), 'seed': seed, 'case': i, 'edge': 'graph'})
            continue
        evals += 1
        flags1 = [bool(v.fixed) for v in vs]
        want = list(flags0)
        if ffp:
            want[0] = True
        if flags1 != want:
            fails.append({'law': 'fixed flags after optimize(fix_first_pose=%s): %s, expected %s' % (ffp, flags1, want), 'seed': seed, 'case': i, 'edge': 'graph'})
            continue
        for k, v in enumerate(vs):
            if want[k] and np.array(v.pose).tobytes() != before[k].tobytes():
                fails.append({'law': 'a fixed vertex moved (mode %s, %d iterations)' % (mode, iters), 'seed': seed, 'case': i, 'vertex_position': k,
                              'before': before[k].tolist(), 'after': np.array(v.pose).tolist(), 'edge': 'graph'})
                break
        if mode == 'isolated_fixed':
            if any(not np.all(np.isfinite(np.array(v.pose))) for v in vs):
                fails.append({'law': 'a fixed vertex with no incident edge made the problem unsolvable (non-finite poses)', 'seed': seed, 'case': i, 'edge': 'graph'})
    # reduced problem: dx on the free vertices = solution of the reduced dense system
    for i in range(max(2, n // 4)):
        g, kind, ffp = mixed_graph(rng, fixed_mode='some')
        H, b, off = dense_system(g)
        free = [k for k, v in enumerate(g._vertices) if not v.fixed]
        idx = np.concatenate([np.arange(off[k], off[k + 1]) for k in free]) if free else np.array([], dtype=int)
        if len(idx) == 0 or np.linalg.cond(H[np.ix_(idx, idx)]) > 1e10:
            continue
        dxf = np.linalg.solve(H[np.ix_(idx, idx)], -b[idx])
        dx = np.zeros(len(b)); dx[idx] = dxf
        expected = [np.array(v.pose) if v.fixed else np.array(v.pose + dx[off[k]:off[k + 1]]) for k, v in enumerate(g._vertices)]
        g.optimize(tol=0.0, max_iter=1, fix_first_pose=False, verbose=False)
        evals += 1
        sc = 1.0 + max(float(np.abs(e).max()) for e in expected)
        for k, v in enumerate(g._vertices):
            if not poses_close(expected[k], v.pose, 1e-7 * sc):
                fails.append({'law': 'free vertices do not solve the reduced problem', 'seed': seed, 'case': i, 'vertex_position': k, 'edge': 'graph'})
                break
    return evals, fails


def clone_graph(g, vertices=None, edges=None):
    g2 = copy.deepcopy(g)
    return g2


KNOWN_SIGN_KEY = 'odometry-SE3-cross-terms-quat-negated'


def sign_finding_example():
    """fixed hand-written instance of the known finding: same physical graph, different chi2"""
    Om = np.eye(6); Om[0, 5] = Om[5, 0] = 0.5
    q = [0.5, 0.5, 0.5, 0.5]
    vs = [Vertex(0, PoseSE3([0, 0, 0], [0, 0, 0, 1])), Vertex(1, PoseSE3([1, 0.5, 0.2], q))]
    es = [EdgeOdometry([0, 1], Om, PoseSE3([1.2, 0.4, 0.1], [0.45, 0.55, 0.5, 0.49]))]
    g = Graph(es, vs)
    c1 = g.calc_chi2()
    vs[1].pose = PoseSE3([1, 0.5, 0.2], [-x for x in q])
    c2 = g.calc_chi2()
    return c1, c2


def representation_independence(seed, n):
    """C08 metamorphic relations on the implementation"""
    rng = random.Random(seed)
    fails, evals = [], 0

    def run(g, iters, ffp=False):
        g.optimize(tol=0.0, max_iter=iters, fix_first_pose=ffp, verbose=False)
        return {v.id: np.array(v.pose) for v in g._vertices}, g.calc_chi2()
    for i in range(n):
        kind = rng.choice(['SE2', 'SE3', 'R2', 'R3'])
        g0, _ = oe.build_graph(rng, kind, nv=rng.randint(3, 6), landmarks=True, noise=0.02, pert=0.03, info_cross=False)
        g0._vertices[0].fixed = True
        iters = rng.randint(1, 3)
        base = copy.deepcopy(g0)
        ref, cref = run(copy.deepcopy(base), iters)
        if not np.isfinite(cref):
            continue
        c0 = base.calc_chi2()
        sc = 1.0 + max(float(np.abs(p).max()) for p in ref.values())
        tol = 1e-6 * sc

        def check(name, g2, idmap=None, chi2_factor=1.0):
            nonlocal evals
            evals += 1
            c2 = g2.calc_chi2()
            if not abs(c2 - chi2_factor * c0) <= 1e-8 * (1 + abs(c0) * chi2_factor):
                fails.append({'law': 'chi2 changes under %s: %r vs %r' % (name, c2, chi2_factor * c0), 'seed': seed, 'case': i, 'kind': kind, 'edge': 'graph'})
                return
            try:
                res, _ = run(g2, iters)
            except Exception as ex:  # noqa
                fails.append({'law': 'optimize raised %r under %s' % (ex, name), 'seed': seed, 'case': i, 'kind': kind, 'edge': 'graph'})
                return
            for vid, p in ref.items():
                q = res[idmap[vid] if idmap else vid]
                ok = poses_close(p, q, tol)
                if kind == 'SE2' and len(p) == 3 and not ok:
                    ok = np.allclose(p[:2], q[:2], rtol=0, atol=tol) and abs(math.remainder(p[2] - q[2], 2 * math.pi)) < 1e-6
                if not ok:
                    fails.append({'law': 'optimization result changes under %s' % name, 'seed': seed, 'case': i, 'kind': kind, 'vertex': vid,
                                  'expected': p.tolist(), 'got': q.tolist(), 'edge': 'graph'})
                    return
        # permute the edge list
        g2 = copy.deepcopy(base); rng.shuffle(g2._edges); check('a permutation of the edge list', Graph(g2._edges, g2._vertices))
        # permute the vertex list (same vertices fixed)
        g2 = copy.deepcopy(base); rng.shuffle(g2._vertices); check('a permutation of the vertex list', Graph(g2._edges, g2._vertices))
        # relabel ids
        g2 = copy.deepcopy(base)
        idmap = {v.id: rng.choice([-1, 1]) * (rng.randint(1, 2 ** 61) + 7 * k) for k, v in enumerate(g2._vertices)}
        for v in g2._vertices:
            v.id = idmap[v.id]
        for e in g2._edges:
            e.vertex_ids = [idmap[x] for x in e.vertex_ids]
        check('relabelling vertex ids', Graph(g2._edges, g2._vertices), idmap=idmap)
        # 2 pi
        if kind == 'SE2':
            g2 = copy.deepcopy(base)
            for v in g2._vertices:
                if isinstance(v.pose, PoseSE2):
                    v.pose = PoseSE2([v.pose[0], v.pose[1]], float(v.pose[2]) + 2 * math.pi * rng.randint(-3, 3))
            for e in g2._edges:
                if isinstance(e.estimate, PoseSE2):
                    e.estimate = PoseSE2([e.estimate[0], e.estimate[1]], float(e.estimate[2]) + 2 * math.pi * rng.randint(-3, 3))
            check('adding multiples of 2 pi to SE(2) angles', Graph(g2._edges, g2._vertices))
        # split an edge
        g2 = copy.deepcopy(base)
        k = rng.randrange(len(g2._edges))
        e = g2._edges[k]
        e2 = copy.deepcopy(e)
        e.information = e.information / 2.0
        e2.information = e2.information / 2.0
        g2._edges.insert(rng.randrange(len(g2._edges) + 1), e2)
        check('splitting an edge into two edges with half the information', Graph(g2._edges, g2._vertices))
        # scale all information matrices
        g2 = copy.deepcopy(base)
        c = rng.choice([0.25, 3.0, 1e3, 1e-3])
        for e in g2._edges:
            e.information = e.information * c
        check('scaling all information matrices by %g' % c, Graph(g2._edges, g2._vertices), chi2_factor=c)
        # quaternion signs (information without cross terms, see the known finding)
        if kind == 'SE3':
            g2 = copy.deepcopy(base)
            for v in g2._vertices:
                if isinstance(v.pose, PoseSE3) and rng.random() < 0.5:
                    v.pose = PoseSE3(v.pose[:3], -np.asarray(v.pose[3:]))
            for e in g2._edges:
                if isinstance(e.estimate, PoseSE3) and rng.random() < 0.5:
                    e.estimate = PoseSE3(e.estimate[:3], -np.asarray(e.estimate[3:]))
                if isinstance(e, EdgeLandmark) and rng.random() < 0.5:
                    e.offset = PoseSE3(e.offset[:3], -np.asarray(e.offset[3:]))
            # information was generated block-diagonal here (info_cross=False -> identity)
            check('negating unit quaternions (block-diagonal information)', Graph(g2._edges, g2._vertices))
    # the known finding, deterministic
    c1, c2 = sign_finding_example()
    evals += 1
    if abs(c1 - c2) > 1e-9:
        fails.append({'law': 'chi2 depends on the sign of a vertex quaternion when the information has a translation-rotation cross term',
                      'chi2': c1, 'chi2_negated': c2, 'edge': 'graph', 'finding_key': KNOWN_SIGN_KEY,
                      'input': 'vertex 1 quaternion (0.5,0.5,0.5,0.5) vs its negative; Omega = I6 with Omega[0,5] = Omega[5,0] = 0.5'})
    return evals, fails
